#!/venv/bin/python
"""
Determinism self-test: every plan (directed + the first N random seeds) of every check is executed three times —
with 16 workers, with 7 workers, and in a fresh interpreter under another PYTHONHASHSEED — and the trace digests
(SHA-256 over the whole event log incl. every oracle observation) must be identical.

usage: selftest/determinism.py [N random seeds per check] [check ids...]
"""
import json
import os
import subprocess
import sys
import tempfile

VERIF = os.path.dirname(os.path.dirname(os.path.abspath(__file__)))
ALL = ['C01', 'C02', 'C03', 'C04', 'C05', 'C06', 'C07', 'C10', 'C11', 'C12', 'C17', 'C18', 'C19']


def run(cid, n, jobs, env_extra, out):
    env = dict(os.environ)
    env.update(env_extra)
    cmd = [os.path.join(VERIF, 'check'), cid, '--max-runs', str(n), '--budget', '3000', '--jobs', str(jobs),
           '--no-minimise', '--digests', out, '--seed', '5']
    subprocess.run(cmd, env=env, stdout=subprocess.DEVNULL, stderr=subprocess.DEVNULL, timeout=3500)
    d = {}
    with open(out) as f:
        for ln in f:
            kind, seed, dig = ln.split()
            d[(kind, seed)] = dig
    return d


def main():
    n = int(sys.argv[1]) if len(sys.argv) > 1 else 300
    ids = sys.argv[2:] or ALL
    report = {}
    bad = 0
    with tempfile.TemporaryDirectory(dir='/tmp') as td:
        for cid in ids:
            a = run(cid, n, 16, {}, os.path.join(td, 'a'))
            b = run(cid, n, 7, {}, os.path.join(td, 'b'))
            c = run(cid, n, 16, {'VERIF_KEEP_HASHSEED': '1', 'PYTHONHASHSEED': '77'}, os.path.join(td, 'c'))
            keys = set(a) | set(b) | set(c)
            diff = [k for k in keys if not (a.get(k) == b.get(k) == c.get(k))]
            report[cid] = {'plans': len(keys), 'differing': len(diff), 'examples': sorted(diff)[:5]}
            bad += len(diff)
            print('%s: %d plans x 3 executions, %d differing %s' % (cid, len(keys), len(diff), sorted(diff)[:5]), flush=True)
    with open(os.path.join(VERIF, 'selftest', 'determinism_report.json'), 'w') as f:
        json.dump(report, f, indent=1)
    return 1 if bad else 0


if __name__ == '__main__':
    sys.exit(main())
