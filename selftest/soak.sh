#!/bin/bash
# usage: selftest/soak.sh <seconds per check> <seed> [ids...]; prints one summary line per check plus every signature seen
B=${1:-300}; S=${2:-31}; shift 2
IDS=${@:-C01 C02 C03 C04 C05 C06 C07 C10 C11 C12 C17 C18 C19}
cd "$(dirname "$0")/.."
for c in $IDS; do
  out=$(timeout $((B*3+600)) ./check $c --tier ${TIER:-quick} --budget $B --seed $S --no-minimise 2>&1)
  rc=$?
  echo "== $c rc=$rc $(echo "$out" | grep -E "^$c (quick|thorough):" | cut -c1-160)"
  echo "$out" | grep -E "^  signature|HARNESS-ERROR|KNOWN-FINDING" | cut -c1-260
done
