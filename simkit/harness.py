"""
Run harness: plans, per-run context, fork-per-run worker pool, aggregation,
minimisation, replay files, known findings, evidence.

A *check module* (checks/cNN.py) provides:
    ID                       property id
    gen(seed) -> plan        JSON-able dict: {'seed', 'scenario', 'knobs', 'ops', ...}
    execute(ctx)             builds the world from ctx.plan, runs the scenario under ctx.sim,
                             evaluates the oracle and calls ctx.violation(...)
    directed(tier) -> [plan] optional directed fault sweeps (finite lists)
    EVIDENCE = {...}         static descriptions (components, assumptions, rule)
"""
import faulthandler
import hashlib
import json
import os
import select
import signal
import sys
import time
import traceback

from . import kernel


def H(*parts):
    """Stable 63-bit hash of the parts (never Python's randomised hash())."""
    h = hashlib.sha256(('|'.join(str(p) for p in parts)).encode()).digest()
    return int.from_bytes(h[:8], 'big') >> 1


class Ctx:
    """Per-run context handed to check.execute()."""

    def __init__(self, check_id, plan, keep_log=False):
        from . import seams
        self.check_id = check_id
        self.plan = plan
        self.seed = plan['seed']
        self.knobs = plan.get('knobs', {})
        sched = plan.get('sched') or {}
        if 'decisions' in sched:
            dec = kernel.Decisions(replay=sched['decisions'])
        else:
            dec = kernel.Decisions(seed=H(self.seed, 'sched', sched.get('alt', 0)))
        import random
        self.sim = kernel.Sim(dec,
                              line_mean=self.knobs.get('line_mean', 0),
                              p_stall=self.knobs.get('p_stall', 0.0),
                              stall_window=self.knobs.get('stall_window', 0.02),
                              sleep_jitter=self.knobs.get('sleep_jitter', 0.0),
                              trace_roots=seams.cflib_file_roots(),
                              max_steps=self.knobs.get('max_steps', 3_000_000),
                              max_time=self.knobs.get('max_time', 3600.0),
                              max_no_progress=self.knobs.get('max_no_progress', 400_000),
                              pct=self.knobs.get('pct', 0),
                              pct_horizon=self.knobs.get('pct_horizon', 20000),
                              p_starve=self.knobs.get('p_starve', 0.0),
                              starve_len=self.knobs.get('starve_len', 200),
                              keep_log=keep_log,
                              jitter_rng=random.Random(H(self.seed, 'jitter')))
        from world.faults import Faults
        self.faults = Faults(H(self.seed, 'fault'), rates=self.knobs.get('rates'),
                             explicit=plan.get('faults'))
        self.violations = []
        self.probes = {}
        self.notes = {}
        self.work = random.Random(H(self.seed, 'work'))

    def obs(self, *payload):
        """Record an observation of the oracle in the event log / trace digest."""
        self.sim.log('obs', *payload)

    def probe(self, name, n=1):
        self.probes[name] = self.probes.get(name, 0) + n

    def violation(self, clause, sig, msg, detail=None):
        self.violations.append({'clause': clause, 'sig': '%s/%s %s' % (self.check_id, clause, sig),
                                'msg': msg, 'detail': detail})

    def bounded(self, fn, timeout, what):
        """Run a blocking library call on a helper thread; returns (finished, result, exc).
        Not finishing within `timeout` simulated seconds is reported by the caller."""
        from . import primitives as P
        box = {}

        def runner():
            try:
                box['r'] = fn()
            except Exception as e:       # library raised: a legitimate way to return
                box['e'] = e
        t = P.SimThread(target=runner, name='bounded:%s' % what)
        t.daemon = True
        t.start()
        t.join(timeout)
        if t.is_alive():
            return False, None, None
        return True, box.get('r'), box.get('e')

    def stack_of(self, name_prefix):
        out = []
        frames = sys._current_frames()
        for t in self.sim.threads:
            if t.name.startswith(name_prefix) and t.state != kernel.DONE:
                f = frames.get(t.os_ident)
                if f is not None:
                    out.append(''.join(traceback.format_stack(f, limit=14)))
        return out


def cflib_site(tb_text):
    """Innermost cflib function named in a traceback text (for signatures)."""
    site = ''
    lines = tb_text.splitlines()
    for i, ln in enumerate(lines):
        ln = ln.strip()
        if ln.startswith('File "') and ('/cflib/' in ln or '/lpslib/' in ln):
            try:
                path = ln.split('"')[1]
                func = ln.rsplit(' in ', 1)[1]
                mod = path.split('/cflib/')[-1] if '/cflib/' in path else path.split('/lpslib/')[-1]
                site = '%s:%s' % (mod, func)
            except Exception:
                pass
    return site


def hang_signature(verdict):
    """For a 'deadlock'/'timeout' verdict: (signature fragment, message) naming where the main thread is stuck."""
    kind, info = verdict
    site = ''
    for t in info or []:
        if kind == 'livelock':
            if t['state'] == 'runnable':
                s2 = cflib_site(t.get('stack', ''))
                if s2:
                    site = s2
                    break
            continue
        if t['thread'] == 'main' or t['thread'].startswith('bounded:'):
            s2 = cflib_site(t.get('stack', ''))
            if s2:
                site = s2
                if t['thread'] == 'main':
                    break
    msg = '%s: threads %s' % (kind, [(t['thread'], t['waiting_on']) for t in (info or [])])
    return ('%s @%s' % ({'timeout': 'hang', 'livelock': 'livelock'}.get(kind, 'deadlock'), site)), msg


def execute_plan(check, plan, keep_log=False):
    """Run one plan in this process.  Returns a JSON-able result dict."""
    ctx = Ctx(check.ID, plan, keep_log=keep_log)
    t0 = time.time()
    res = {'seed': plan.get('seed'), 'scenario': plan.get('scenario'), 'harness_error': None}
    try:
        check.execute(ctx)
    except kernel.HarnessError as e:
        res['harness_error'] = 'HarnessError: %s' % e
    except Exception as e:
        res['harness_error'] = 'exception in harness: %s\n%s' % (e, traceback.format_exc())
    sim = ctx.sim
    for v in ctx.violations:
        sim.log('violation', v['sig'])
    if sim.verdict is not None and sim.verdict[0] == 'harness' and not res['harness_error']:
        res['harness_error'] = str(sim.verdict[1])
    res.update({
        'violations': ctx.violations,
        'probes': ctx.probes,
        'notes': ctx.notes,
        'fired': ctx.faults.fired,
        'fired_counts': ctx.faults.fired_counts(),
        'decisions': sim.dec.log,
        'digest': sim.digest.hexdigest(),
        'sched_digest': sim.sched_digest.hexdigest()[:16],
        'sim_time': round(sim.now, 6),
        'steps': sim.steps,
        'switches': sim.switches,
        'preemptions': sim.preemptions,
        'starvations': getattr(sim, 'starvations', 0),
        'stalls': sim.stalls,
        'threads': len(sim.threads),
        'wall': round(time.time() - t0, 4),
    })
    if keep_log:
        res['events'] = sim.events
    return res


def run_in_child(check, plan, timeout=150, keep_log=False, want_decisions=False):
    """Fork, run the plan in the child, return its result dict."""
    r, w = os.pipe()
    pid = os.fork()
    if pid == 0:
        try:
            os.close(r)
            faulthandler.enable()
            faulthandler.dump_traceback_later(timeout - 5, exit=True)
            res = execute_plan(check, plan, keep_log=keep_log)
            if not want_decisions:
                res.pop('decisions', None)
            data = json.dumps(res, default=repr).encode()
            with os.fdopen(w, 'wb') as f:
                f.write(data)
        except BaseException:
            try:
                os.write(w, json.dumps({'harness_error': 'child crashed: ' + traceback.format_exc(),
                                        'seed': plan.get('seed')}).encode())
            except Exception:
                pass
        finally:
            os._exit(0)
    os.close(w)
    chunks = []
    deadline = time.time() + timeout
    ok = True
    while True:
        left = deadline - time.time()
        if left <= 0:
            ok = False
            break
        rl, _, _ = select.select([r], [], [], left)
        if not rl:
            ok = False
            break
        b = os.read(r, 1 << 20)
        if not b:
            break
        chunks.append(b)
    os.close(r)
    if not ok:
        try:
            os.kill(pid, signal.SIGKILL)
        except OSError:
            pass
    try:
        os.waitpid(pid, 0)
    except OSError:
        pass
    if not ok:
        return {'harness_error': 'wall timeout (%ds) for seed %s' % (timeout, plan.get('seed')),
                'seed': plan.get('seed'), 'violations': []}
    try:
        return json.loads(b''.join(chunks).decode())
    except Exception:
        return {'harness_error': 'child wrote no/invalid result for seed %s (crashed?)' % plan.get('seed'),
                'seed': plan.get('seed'), 'violations': []}


# ---------------------------------------------------------------------------
# worker pool
# ---------------------------------------------------------------------------

def _worker(check, wid, nworkers, directed, base_seed, max_random, deadline, wfd):
    out = os.fdopen(wfd, 'w')

    def emit(kind, plan, res):
        slim = dict(res)
        slim['kind'] = kind
        if res.get('violations') or res.get('harness_error'):
            slim['plan'] = plan
        else:
            slim['plan_summary'] = summarise(plan)
        out.write(json.dumps(slim, default=repr) + '\n')
        out.flush()

    def run(plan):
        res = run_in_child(check, plan)
        he = str(res.get('harness_error') or '')
        if 'wall timeout' in he or 'no/invalid result' in he:
            # the machine may be overloaded (the watchdog of the child fires 5 s before the wall limit and ends it without
            # a result): a wall-clock kill says nothing about the property; try once more with a much longer limit
            res = run_in_child(check, plan, timeout=900)
        return res

    for i in range(wid, len(directed), nworkers):
        if time.time() > deadline:
            break
        plan = directed[i]
        emit('directed', plan, run(plan))
    i = wid
    while i < max_random and time.time() < deadline:
        plan = check.gen(base_seed + i)
        emit('random', plan, run(plan))
        i += nworkers
    out.close()
    os._exit(0)


def summarise(plan):
    """A readable, size-bounded rendering of a plan for evidence samples."""
    s = {}
    for k, v in plan.items():
        if k in ('sched',):
            continue
        js = json.dumps(v, default=repr)
        if len(js) <= 1500:
            s[k] = v
        elif isinstance(v, list):
            s[k] = v[:4] + ['... %d more' % (len(v) - 4)]
            if len(json.dumps(s[k], default=repr)) > 3000:
                s[k] = '(%d items, %d bytes of json)' % (len(v), len(js))
        else:
            s[k] = '(%d bytes of json)' % len(js)
    return s


def run_batch(check, directed, base_seed, max_random, budget_s, jobs):
    """Run directed plans + random seeds on `jobs` processes.  Yields result dicts."""
    deadline = time.time() + budget_s
    readers = {}
    pids = []
    for wid in range(jobs):
        r, w = os.pipe()
        pid = os.fork()
        if pid == 0:
            os.close(r)
            for fd in list(readers):
                try:
                    os.close(fd)
                except OSError:
                    pass
            try:
                _worker(check, wid, jobs, directed, base_seed, max_random, deadline, w)
            finally:
                os._exit(0)
        os.close(w)
        readers[r] = b''
        pids.append(pid)
    while readers:
        rl, _, _ = select.select(list(readers), [], [], 5.0)
        for fd in rl:
            b = os.read(fd, 1 << 20)
            if not b:
                os.close(fd)
                del readers[fd]
                continue
            buf = readers[fd] + b
            *lines, rest = buf.split(b'\n')
            readers[fd] = rest
            for ln in lines:
                if ln.strip():
                    try:
                        yield json.loads(ln.decode())
                    except Exception:
                        yield {'harness_error': 'bad line from worker', 'violations': []}
    for pid in pids:
        try:
            os.waitpid(pid, 0)
        except OSError:
            pass


# ---------------------------------------------------------------------------
# minimisation
# ---------------------------------------------------------------------------

def _fails_same(check, plan, sig, alts=(0,)):
    """Does the plan (under any of the alternative schedule streams) fail with sig?"""
    for alt in alts:
        p = dict(plan)
        if 'decisions' not in (p.get('sched') or {}):
            p['sched'] = {'alt': alt}
        res = run_in_child(check, p, want_decisions=True)
        for v in res.get('violations', []):
            if v['sig'] == sig:
                return p, res
    return None, None


def ddmin(items, test):
    """Classic ddmin: smallest sublist (1-minimal) for which test(sublist) is true."""
    n = 2
    while len(items) >= 2:
        chunk = max(1, len(items) // n)
        subsets = [items[i:i + chunk] for i in range(0, len(items), chunk)]
        reduced = False
        for i in range(len(subsets)):
            comp = [x for j, s in enumerate(subsets) if j != i for x in s]
            if test(comp):
                items = comp
                n = max(n - 1, 2)
                reduced = True
                break
        if not reduced:
            if n >= len(items):
                break
            n = min(len(items), n * 2)
    if len(items) == 1 and test([]):
        return []
    return items


def minimise(check, plan, res, sig, budget_s=60):
    """Shrink ops, faults, knobs and the schedule while the same signature fails."""
    t_end = time.time() + budget_s
    best_plan, best_res = dict(plan), res
    if 'decisions' in (best_plan.get('sched') or {}):
        best_plan['sched'] = {}
    # make the fault list explicit
    exp = dict(best_plan)
    exp['faults'] = res.get('fired', [])
    p, r = _fails_same(check, exp, sig, alts=(best_plan.get('sched', {}).get('alt', 0),))
    if p is not None:
        best_plan, best_res = p, r
    alts = (best_plan.get('sched', {}).get('alt', 0), 1, 2, 3)

    def attempt(candidate):
        nonlocal best_plan, best_res
        if time.time() > t_end:
            return False
        p, r = _fails_same(check, candidate, sig, alts)
        if p is not None:
            best_plan, best_res = p, r
            return True
        return False

    if getattr(check, 'MINIMISE_OPS', True) and best_plan.get('ops'):
        def t_ops(ops):
            c = dict(best_plan)
            c['ops'] = ops
            c.pop('sched', None)
            c['sched'] = {'alt': best_plan.get('sched', {}).get('alt', 0)}
            return attempt(c)
        ops = ddmin(list(best_plan['ops']), t_ops)
        # ddmin's final list is the one of the last successful attempt
        if best_plan.get('ops') != ops:
            c = dict(best_plan)
            c['ops'] = ops
            attempt(c)
    if best_plan.get('faults'):
        def t_f(fl):
            c = dict(best_plan)
            c['faults'] = fl
            return attempt(c)
        ddmin(list(best_plan['faults']), t_f)
    # knob simplification
    for k, v in (('line_mean', 0), ('p_stall', 0.0), ('sleep_jitter', 0.0)):
        if best_plan.get('knobs', {}).get(k):
            c = json.loads(json.dumps(best_plan))
            c['knobs'][k] = v
            attempt(c)
    if hasattr(check, 'simplify'):
        for c in check.simplify(json.loads(json.dumps(best_plan))):
            if time.time() > t_end:
                break
            attempt(c)
    # freeze the schedule: recorded decision list, truncated from the right
    dec = list(best_res.get('decisions') or [])
    frozen = json.loads(json.dumps(best_plan))
    frozen['sched'] = {'decisions': dec}
    frozen['faults'] = best_res.get('fired', frozen.get('faults', []))
    p, r = _fails_same(check, frozen, sig)
    if p is None:
        # could not freeze (should not happen); fall back to the seeded form
        return best_plan, best_res
    best_plan, best_res = p, r
    lo, hi = 0, len(dec)
    while lo < hi and time.time() < t_end:       # shortest failing prefix (binary search)
        mid = (lo + hi) // 2
        c = json.loads(json.dumps(frozen))
        c['sched'] = {'decisions': dec[:mid]}
        p, r = _fails_same(check, c, sig)
        if p is not None:
            hi = mid
            best_plan, best_res = p, r
        else:
            lo = mid + 1
    return best_plan, best_res


# ---------------------------------------------------------------------------
# known findings
# ---------------------------------------------------------------------------

def load_known(verif_root):
    path = os.path.join(verif_root, 'known_findings.json')
    try:
        with open(path) as f:
            doc = json.load(f)
    except FileNotFoundError:
        return []
    return doc.get('findings', [])


def is_known(known, prop, sig):
    for k in known:
        if k.get('property') == prop and k.get('status') == 'known' and k.get('signature') == sig:
            return k
    return None
