"""
Install the simulator behind cflib's module-level seams.

cflib reaches threads, locks, queues, timers and the clock only through
module-level names (`from threading import Thread`, `import time`, ...).  We
(re)import every cflib module while `threading.*`/`queue.Queue` point at the
simulated classes, restore the stdlib immediately, and then replace any module
attribute that *is* the real `time`/`threading`/`queue` module by a proxy.
No change to /repo is needed.
"""
import importlib
import os
import pkgutil
import queue as _queue
import sys
import threading as _threading
import time as _time

from . import primitives as P

CFLIB_ROOT = os.environ.get('CFLIB_ROOT', '/repo')

_PATCH_THREADING = ['Thread', 'Lock', 'RLock', 'Event', 'Condition', 'Semaphore',
                    'BoundedSemaphore', 'Timer', 'current_thread']
_SKIP = ('cflib.crtp.cflinkcppdriver', 'cflib.crtp.prrtdriver')

_loaded = False


def cflib_file_roots():
    return (os.path.join(CFLIB_ROOT, 'cflib') + os.sep, os.path.join(CFLIB_ROOT, 'lpslib') + os.sep)


def load_cflib():
    """Import cflib from CFLIB_ROOT under the seams.  Idempotent."""
    global _loaded
    if _loaded:
        return
    # third-party dependencies first, unpatched
    import numpy  # noqa
    import scipy.optimize  # noqa
    import scipy.spatial.transform  # noqa
    import usb  # noqa
    import usb.core  # noqa
    import usb.util  # noqa
    import yaml  # noqa
    import libusb_package  # noqa
    import logging
    import json  # noqa
    import struct  # noqa
    import traceback  # noqa
    import urllib.parse  # noqa
    import socket  # noqa

    if sys.path[0] != CFLIB_ROOT:
        sys.path.insert(0, CFLIB_ROOT)
    for m in [m for m in sys.modules if m == 'cflib' or m.startswith('cflib.') or
              m == 'lpslib' or m.startswith('lpslib.')]:
        del sys.modules[m]
    importlib.invalidate_caches()

    saved_t = {k: getattr(_threading, k) for k in _PATCH_THREADING}
    saved_q = {k: getattr(_queue, k) for k in ('Queue', 'LifoQueue', 'PriorityQueue', 'SimpleQueue')}
    try:
        for k in _PATCH_THREADING:
            setattr(_threading, k, getattr(P.threading_proxy, k if k != 'Thread' else 'Thread'))
        _threading.Thread = P.SimThread
        for k in saved_q:
            setattr(_queue, k, getattr(P.queue_proxy, k))
        import cflib
        assert os.path.realpath(cflib.__file__).startswith(os.path.realpath(CFLIB_ROOT)), cflib.__file__
        for pkgname in ('cflib', 'lpslib'):
            pkg = importlib.import_module(pkgname)
            for mi in pkgutil.walk_packages(pkg.__path__, pkgname + '.'):
                if mi.name in _SKIP:
                    continue
                try:
                    importlib.import_module(mi.name)
                except ImportError:
                    pass
    finally:
        for k, v in saved_t.items():
            setattr(_threading, k, v)
        for k, v in saved_q.items():
            setattr(_queue, k, v)

    # replace references to real modules by proxies
    for name, mod in list(sys.modules.items()):
        if mod is None or not (name == 'cflib' or name.startswith('cflib.') or
                               name == 'lpslib' or name.startswith('lpslib.')):
            continue
        for attr, val in list(vars(mod).items()):
            if val is _time:
                setattr(mod, attr, P.time_proxy)
            elif val is _threading:
                setattr(mod, attr, P.threading_proxy)
            elif val is _queue:
                setattr(mod, attr, P.queue_proxy)
    logging.disable(logging.CRITICAL)
    _loaded = True
