"""
Command line driver:  check <ID> [--tier quick|thorough] [--seed N] [--jobs N]
                            [--budget S] [--replay FILE] [--trace]

Exit codes: 0 held on everything explored, 1 VIOLATION (line printed, replay file
written and re-validated in a fresh process), 2 HARNESS-ERROR.
"""
import argparse
import importlib
import json
import os
import subprocess
import sys
import time

VERIF = os.path.dirname(os.path.dirname(os.path.abspath(__file__)))


def _reexec_if_needed():
    if os.environ.get('PYTHONHASHSEED') != '0' and not os.environ.get('VERIF_KEEP_HASHSEED'):
        env = dict(os.environ)
        env['PYTHONHASHSEED'] = '0'
        os.execve(sys.executable, [sys.executable] + sys.argv, env)


def load_check(cid):
    sys.path.insert(0, VERIF)
    from . import seams
    seams.load_cflib()
    return importlib.import_module('checks.' + cid.lower())


def write_evidence(check, tier, seed, agg, wall, violations_n, extra_assumptions=()):
    ev = getattr(check, 'EVIDENCE', {})
    runs_per_hour = int(agg['runs'] / wall * 3600) if wall > 0 else 0
    cov = {
        'evaluations': agg['runs'],
        'distinct_nontrivial': len(agg['nontrivial_digests']),
        'rule': ev.get('rule', '') + ' Scheduling per run (seeded): uniform random choice among the runnable threads at '
                'every blocking point, optionally with line-level pre-emption of cflib code (mean 3-40 lines), stalls '
                '(virtual time passes although threads are runnable), in 20 % of the random runs PCT priority schedules '
                '(depth 1-3) and in 15 % thread starvation. A run is non-trivial when at least one fault fired, or at least one '
                'pre-emptive context switch or stall happened, or the scenario marked it (directed sweep member); '
                'distinct = distinct SHA-256 trace digests among those runs.',
        'samples': agg['samples'][:6],
        'exhaustive': False,
        'directed_runs': agg['directed'],
        'directed_sweep_complete': agg['directed'] >= agg['directed_total'],
        'directed_sweep': ev.get('directed', ''),
        'random_runs': agg['random'],
        'runs_per_hour': runs_per_hour,
        'simulated_seconds': round(agg['sim_time'], 3),
        'scheduler_steps': agg['steps'],
        'context_switches': agg['switches'],
        'preemptive_switches': agg['preemptions'],
        'thread_starvations': agg['starvations'],
        'stalls': agg['stalls'],
        'distinct_trace_digests': len(agg['digests']),
        'distinct_schedule_digests': len(agg['sched_digests']),
        'faults_fired': agg['fired'],
        'probes': agg['probes'],
        'scenarios': agg['scenarios'],
        'harness_errors': agg['harness_errors'],
        'known_findings_seen': agg['known_seen'],
        'components_real': ev.get('real', []),
        'components_stub': ev.get('stub', []),
        'seed_range': [agg['seed_lo'], agg['seed_hi']],
    }
    doc = {
        'property_id': check.ID,
        'tier': tier,
        'seed': seed,
        'level': 'exploration',
        'coverage': cov,
        'assumptions': list(ev.get('assumptions', [])) + list(extra_assumptions),
        'wall_s': round(wall, 2),
        'violations': violations_n,
    }
    os.makedirs(os.path.join(VERIF, 'evidence'), exist_ok=True)
    path = os.path.join(VERIF, 'evidence', '%s.json' % check.ID)
    with open(path + '.tmp', 'w') as f:
        json.dump(doc, f, indent=1, default=repr)
    os.replace(path + '.tmp', path)


def main(argv=None):
    ap = argparse.ArgumentParser()
    ap.add_argument('id')
    ap.add_argument('--tier', default=os.environ.get('VERIF_TIER', 'quick'))
    ap.add_argument('--seed', type=int, default=None)
    ap.add_argument('--jobs', type=int, default=int(os.environ.get('VERIF_JOBS', '16')))
    ap.add_argument('--budget', type=float, default=None)
    ap.add_argument('--max-runs', type=int, default=None)
    ap.add_argument('--replay', default=None)
    ap.add_argument('--trace', action='store_true')
    ap.add_argument('--no-minimise', action='store_true')
    ap.add_argument('--one', type=int, default=None, help='run a single plan (gen(seed) or directed seed) verbosely')
    ap.add_argument('--digests', default=None, help='write seed->digest lines to this file (self-test)')
    args = ap.parse_args(argv)
    _reexec_if_needed()
    if args.seed is None:
        args.seed = int(os.environ.get('VERIF_SEED', '1'))
    from . import harness
    check = load_check(args.id)
    cid = check.ID

    if args.replay:
        with open(args.replay) as f:
            doc = json.load(f)
        plan = doc['plan']
        res = harness.run_in_child(check, plan, keep_log=args.trace, want_decisions=False)
        if args.trace:
            for e in res.get('events', []):
                print(e)
        if res.get('harness_error'):
            print('HARNESS-ERROR: %s' % res['harness_error'])
            return 2
        exp = doc.get('expect', {})
        sigs = [v['sig'] for v in res.get('violations', [])]
        print('replay: digest=%s expected=%s %s' % (res['digest'][:16], str(exp.get('digest'))[:16],
                                                   'MATCH' if res['digest'] == exp.get('digest') else 'DIFFERENT'))
        for v in res.get('violations', []):
            print('  violation %s: %s' % (v['sig'], v['msg'][:300]))
        if exp.get('sig') in sigs or (not exp.get('sig') and sigs):
            known = harness.is_known(harness.load_known(VERIF), cid, exp.get('sig'))
            if known:
                print('KNOWN-FINDING: property=%s %s' % (cid, known.get('what', exp.get('sig'))))
                return 0
            print('VIOLATION property=%s replay=%s' % (cid, args.replay))
            return 1
        print('replay did not reproduce the recorded violation (%s)' % exp.get('sig'))
        return 0

    if args.one is not None:
        plan = None
        if hasattr(check, 'directed'):
            for p in check.directed('thorough'):
                if p.get('seed') == args.one:
                    plan = p
        if plan is None:
            plan = check.gen(args.one)
        res = harness.run_in_child(check, plan, keep_log=args.trace)
        print(json.dumps(harness.summarise(plan), default=repr)[:3000])
        if args.trace:
            for e in res.get('events', []):
                print(e)
        for ln in res.get('notes', {}).get('hist', []):
            print('  H', ln)
        for k in ('harness_error', 'probes', 'fired', 'sim_time', 'steps', 'switches', 'preemptions', 'starvations', 'digest'):
            print(k, '=', res.get(k))
        for v in res.get('violations', []):
            print('VIOL', v['sig'], '\n    ', v['msg'])
            if v.get('detail'):
                d = v['detail']
                print('    detail:', d if isinstance(d, str) else json.dumps(d, indent=1, default=repr)[:6000])
        return 0
    budget = args.budget if args.budget is not None else check.BUDGET[args.tier]
    directed = list(check.directed(args.tier)) if hasattr(check, 'directed') else []
    max_random = args.max_runs if args.max_runs is not None else 10 ** 9
    base_seed = args.seed * 1_000_003
    t0 = time.time()
    agg = {'runs': 0, 'directed': 0, 'directed_total': len(directed), 'random': 0, 'sim_time': 0.0, 'steps': 0,
           'switches': 0, 'preemptions': 0, 'stalls': 0, 'starvations': 0, 'digests': set(), 'sched_digests': set(),
           'nontrivial_digests': set(), 'fired': {}, 'probes': {}, 'samples': [], 'scenarios': {},
           'harness_errors': 0, 'known_seen': {}, 'seed_lo': None, 'seed_hi': None}
    violations = {}      # sig -> (plan, res, violation)
    sigcount = {}
    harness_msgs = []
    digest_out = open(args.digests, 'w') if args.digests else None
    for res in harness.run_batch(check, directed, base_seed, max_random, budget, args.jobs):
        agg['runs'] += 1
        if res.get('harness_error'):
            agg['harness_errors'] += 1
            if len(harness_msgs) < 5:
                harness_msgs.append((res.get('seed'), res['harness_error'], res.get('plan')))
            continue
        kind = res.get('kind')
        agg['directed' if kind == 'directed' else 'random'] += 1
        s = res.get('seed')
        if isinstance(s, int):
            agg['seed_lo'] = s if agg['seed_lo'] is None else min(agg['seed_lo'], s)
            agg['seed_hi'] = s if agg['seed_hi'] is None else max(agg['seed_hi'], s)
        agg['sim_time'] += res.get('sim_time', 0)
        for k in ('steps', 'switches', 'preemptions', 'stalls', 'starvations'):
            agg[k] += res.get(k, 0)
        agg['digests'].add(res['digest'])
        agg['sched_digests'].add(res['sched_digest'])
        if digest_out:
            digest_out.write('%s %s %s\n' % (kind, s, res['digest']))
        nontrivial = bool(res.get('fired')) or res.get('preemptions', 0) > 0 or res.get('stalls', 0) > 0 or \
            res.get('notes', {}).get('nontrivial')
        if nontrivial:
            agg['nontrivial_digests'].add(res['digest'])
        for k, v in res.get('fired_counts', {}).items():
            agg['fired'][k] = agg['fired'].get(k, 0) + v
        for k, v in res.get('probes', {}).items():
            agg['probes'][k] = agg['probes'].get(k, 0) + v
        sc = res.get('scenario') or 'default'
        agg['scenarios'][sc] = agg['scenarios'].get(sc, 0) + 1
        if 'plan_summary' in res and len(agg['samples']) < 6 and (nontrivial or agg['runs'] > 50):
            agg['samples'].append({'plan': res['plan_summary'], 'faults_fired': res.get('fired', [])[:12],
                                   'sim_time': res.get('sim_time'), 'switches': res.get('switches'),
                                   'digest': res['digest'][:16]})
        for v in res.get('violations', []):
            sigcount[v['sig']] = sigcount.get(v['sig'], 0) + 1
            if v['sig'] not in violations:
                violations[v['sig']] = (res.get('plan'), res, v)
    if digest_out:
        digest_out.close()
    wall = time.time() - t0
    if not agg['samples']:
        agg['samples'].append({'note': 'no sample captured'})
    for k in ('digests', 'sched_digests', 'nontrivial_digests'):
        pass

    known = harness.load_known(VERIF)
    real_violations = []
    for sig, (plan, res, v) in sorted(violations.items()):
        k = harness.is_known(known, cid, sig)
        if k:
            agg['known_seen'][sig] = agg['known_seen'].get(sig, 0) + 1
            print('KNOWN-FINDING: property=%s %s' % (cid, k.get('what', sig)))
        else:
            real_violations.append((sig, plan, res, v))

    write_evidence(check, args.tier, args.seed, agg, wall, len(real_violations))
    print('%s %s: %d runs (%d directed of %d, %d random) in %.1fs, sim %.0fs, %d distinct traces, faults %s, '
          'harness-errors %d' % (cid, args.tier, agg['runs'], agg['directed'], agg['directed_total'], agg['random'],
                                 wall, agg['sim_time'], len(agg['digests']), agg['fired'], agg['harness_errors']))
    for sig in sorted(sigcount):
        print('  signature %-70s x%d (first seed %s)' % (sig, sigcount[sig], violations[sig][1].get('seed')))
    rc = 0
    if real_violations:
        rc = 1
        os.makedirs(os.path.join(VERIF, 'replays', cid), exist_ok=True)
        for sig, plan, res, v in real_violations[:4]:
            mplan, mres = plan, res
            if not args.no_minimise:
                try:
                    mplan, mres = harness.minimise(check, plan, res, sig,
                                                   budget_s=45 if args.tier == 'quick' else 180)
                except Exception as e:       # never lose a violation to a minimiser bug
                    print('minimiser failed (%s); reporting the unminimised run' % e)
                    mplan, mres = plan, res
            if 'decisions' not in (mplan.get('sched') or {}):
                # freeze by re-running with decisions recorded
                r2 = harness.run_in_child(check, mplan, want_decisions=True)
                if any(x['sig'] == sig for x in r2.get('violations', [])):
                    mplan = dict(mplan)
                    mplan['sched'] = {'decisions': r2.get('decisions', [])}
                    mplan['faults'] = r2.get('fired', [])
                    mres = r2
            mv = next((x for x in mres.get('violations', []) if x['sig'] == sig), v)
            name = '%s_%s.json' % (plan.get('seed'), harness.H(sig) % 100000)
            path = os.path.join(VERIF, 'replays', cid, name)
            with open(path, 'w') as f:
                json.dump({'property': cid, 'plan': mplan,
                           'expect': {'sig': sig, 'digest': mres.get('digest'), 'clause': mv['clause'],
                                      'message': mv['msg']},
                           'detail': mv.get('detail'),
                           'original_seed': plan.get('seed')}, f, indent=1, default=repr)
            # validate in a fresh interpreter
            p = subprocess.run([sys.executable, os.path.join(VERIF, 'check'), cid, '--replay', path],
                               capture_output=True, text=True, timeout=300)
            validated = ('VIOLATION property=%s' % cid) in p.stdout and 'MATCH' in p.stdout
            print('violation %s\n   %s\n   replay %s in a fresh process' %
                  (sig, mv['msg'][:600].replace('\n', '\n   '), 'reproduced exactly' if validated else
                   'DID NOT reproduce exactly: ' + p.stdout[-300:]))
            print('VIOLATION property=%s replay=%s' % (cid, path))
    if agg['harness_errors']:
        for seed, msg, plan in harness_msgs:
            print('HARNESS-ERROR seed=%s: %s' % (seed, str(msg)[:1500]))
        # tolerate nothing: a harness error means the check is not trustworthy
        if rc == 0:
            rc = 2
    return rc


if __name__ == '__main__':
    sys.exit(main())
