"""
Simulated threading primitives.

Hand-written: SimLock, SimThread, Timer (a verbatim transcription of CPython's
Timer on SimThread), sleep/time.  Everything else (RLock, Condition, Event,
Semaphore, BoundedSemaphore, Queue, LifoQueue, PriorityQueue, SimpleQueue) is
CPython's own source, extracted from Lib/threading.py and Lib/queue.py with
`ast` and executed in a namespace whose lowest layer (`_allocate_lock`, `Lock`,
`_time`, `time`) is the simulated one.
"""
import ast
import collections
import heapq
import itertools
import queue as _real_queue
import threading as _real_threading
import types

from . import kernel
from .kernel import BLOCKED, DONE, NEW, RUNNABLE  # noqa


def _sim():
    return kernel.SIM


class SimLock:
    """threading.Lock on the simulated scheduler (non-reentrant, no owner)."""

    def __init__(self):
        self._locked = False
        self._waiters = []

    def acquire(self, blocking=True, timeout=-1):
        sim = kernel.SIM
        if not blocking and timeout != -1:
            raise ValueError("can't specify a timeout for a non-blocking call")
        if timeout is not None and timeout != -1 and timeout < 0:
            raise ValueError('timeout value must be a non-negative number')
        if sim.in_kernel:
            if self._locked:
                raise kernel.HarnessError('contended lock in kernel context')
            self._locked = True
            return True
        sim.yield_point('acquire')
        if not self._locked:
            self._locked = True
            return True
        if not blocking:
            return False
        deadline = None
        if timeout is not None and timeout != -1:
            deadline = sim.now + timeout
        while True:
            woken = sim.block(self._waiters, deadline, self)
            if not self._locked:
                self._locked = True
                return True
            if not woken and deadline is not None and sim.now >= deadline:
                return False

    def release(self):
        if not self._locked:
            raise RuntimeError('release unlocked lock')
        sim = kernel.SIM
        self._locked = False
        sim.wake_all(self._waiters)
        sim.yield_point('release')

    def locked(self):
        return self._locked

    __enter__ = acquire

    def __exit__(self, *a):
        self.release()

    def _at_fork_reinit(self):
        self._locked = False
        self._waiters = []

    def __repr__(self):
        return '<SimLock %s>' % ('locked' if self._locked else 'unlocked')


_name_counter = itertools.count(1)


class SimThread:
    """threading.Thread on the simulated scheduler (subset used by cflib)."""

    _counter = None

    def __init__(self, group=None, target=None, name=None, args=(), kwargs=None, *, daemon=None):
        assert group is None, 'group argument must be None for now'
        if kwargs is None:
            kwargs = {}
        sim = kernel.SIM
        self._target = target
        self._args = args
        self._kwargs = kwargs
        self._started_flag = False
        self._initialized = True
        if name is None:
            name = 'Thread-%d' % (len(sim.threads) + 1)
            if target is not None:
                try:
                    name += ' (%s)' % target.__name__
                except AttributeError:
                    pass
        self._ts = sim.new_thread(str(name), self)
        if daemon is not None:
            self._ts.daemon = bool(daemon)
        else:
            cur = sim.cur()
            self._ts.daemon = cur.daemon if cur is not None else False

    # -- attributes ------------------------------------------------------
    @property
    def name(self):
        return self._ts.name

    @name.setter
    def name(self, v):
        self._ts.name = str(v)

    @property
    def ident(self):
        return self._ts.os_ident if self._started_flag else None

    native_id = ident

    @property
    def daemon(self):
        return self._ts.daemon

    @daemon.setter
    def daemon(self, v):
        if self._started_flag:
            raise RuntimeError('cannot set daemon status of active thread')
        self._ts.daemon = bool(v)

    def isDaemon(self):
        return self.daemon

    def setDaemon(self, v):
        self.daemon = v

    def getName(self):
        return self.name

    def setName(self, n):
        self.name = n

    # -- life cycle ------------------------------------------------------
    def start(self):
        if not getattr(self, '_initialized', False):
            raise RuntimeError('thread.__init__() not called')
        if self._started_flag:
            raise RuntimeError('threads can only be started once')
        self._started_flag = True
        sim = kernel.SIM
        sim.start_thread(self._ts, self._bootstrap_inner)
        sim.yield_point('thread-start')

    def _bootstrap_inner(self):
        self.run()

    def run(self):
        try:
            if self._target is not None:
                self._target(*self._args, **self._kwargs)
        finally:
            del self._target, self._args, self._kwargs

    def join(self, timeout=None):
        if not getattr(self, '_initialized', False):
            raise RuntimeError('Thread.__init__() not called')
        if not self._started_flag:
            raise RuntimeError('cannot join thread before it is started')
        sim = kernel.SIM
        if sim.cur() is self._ts:
            raise RuntimeError('cannot join current thread')
        sim.yield_point('join')
        if self._ts.state == DONE:
            return
        if timeout is None:
            while self._ts.state != DONE:
                sim.block(self._ts.done_waiters, None, ('join', self._ts.name))
        else:
            deadline = sim.now + max(timeout, 0)
            while self._ts.state != DONE and sim.now < deadline:
                sim.block(self._ts.done_waiters, deadline, ('join', self._ts.name))

    def is_alive(self):
        return self._started_flag and self._ts.state != DONE

    def __repr__(self):
        return '<SimThread(%s, %s)>' % (self.name, self._ts.state)


class _ForeignThread:
    """What current_thread() returns for OS threads the simulator does not own."""
    name = 'foreign'
    daemon = True
    ident = None

    def is_alive(self):
        return True


_foreign = _ForeignThread()


def current_thread():
    ts = kernel.SIM.cur() if kernel.SIM is not None else None
    if ts is None:
        return _foreign
    return ts.obj


def get_ident():
    return kernel._real_get_ident()


def sim_time():
    return kernel.SIM.time()


def sim_monotonic():
    return kernel.SIM.monotonic()


def sim_sleep(d):
    kernel.SIM.sleep(d)


# ---------------------------------------------------------------------------
# stdlib classes on simulated locks
# ---------------------------------------------------------------------------

def _extract(module, names):
    src = open(module.__file__).read()
    tree = ast.parse(src)
    keep = [n for n in tree.body
            if isinstance(n, (ast.ClassDef, ast.FunctionDef)) and n.name in names]
    found = {n.name for n in keep}
    missing = set(names) - found
    if missing:
        raise kernel.HarnessError('stdlib source lacks %s' % sorted(missing))
    mod = ast.Module(body=keep, type_ignores=[])
    return compile(mod, module.__file__, 'exec')


_thr_ns = {
    '__name__': 'simkit._threading',
    '_allocate_lock': SimLock,
    'Lock': SimLock,
    '_CRLock': None,
    '_time': sim_monotonic,
    'get_ident': get_ident,
    '_deque': collections.deque,
    '_islice': itertools.islice,
    '_sys': __import__('sys'),
    '_os': __import__('os'),
}
exec(_extract(_real_threading, ['_RLock', 'RLock', 'Condition', 'Semaphore',
                                'BoundedSemaphore', 'Event']), _thr_ns)
_thr_ns['_PyRLock'] = _thr_ns['_RLock']

RLock = _thr_ns['RLock']
Condition = _thr_ns['Condition']
Semaphore = _thr_ns['Semaphore']
BoundedSemaphore = _thr_ns['BoundedSemaphore']
Event = _thr_ns['Event']
Lock = SimLock


class Timer(SimThread):
    """Transcription of threading.Timer (CPython 3.12) on SimThread/Event."""

    def __init__(self, interval, function, args=None, kwargs=None):
        SimThread.__init__(self)
        self.interval = interval
        self.function = function
        self.args = args if args is not None else []
        self.kwargs = kwargs if kwargs is not None else {}
        self.finished = Event()

    def cancel(self):
        """Stop the timer if it hasn't finished yet."""
        self.finished.set()

    def run(self):
        self.finished.wait(self.interval)
        if not self.finished.is_set():
            self.function(*self.args, **self.kwargs)
        self.finished.set()


# the proxy module cflib sees as `threading`
threading_proxy = types.ModuleType('simkit.threading_proxy')
for _k, _v in dict(Thread=SimThread, Lock=SimLock, RLock=RLock, Condition=Condition,
                   Semaphore=Semaphore, BoundedSemaphore=BoundedSemaphore, Event=Event,
                   Timer=Timer, current_thread=current_thread, get_ident=get_ident,
                   main_thread=current_thread, TIMEOUT_MAX=_real_threading.TIMEOUT_MAX).items():
    setattr(threading_proxy, _k, _v)

_q_ns = {
    '__name__': 'simkit._queue',
    'threading': threading_proxy,
    'types': types,
    'deque': collections.deque,
    'heappush': heapq.heappush,
    'heappop': heapq.heappop,
    'time': sim_monotonic,
    'Empty': _real_queue.Empty,
    'Full': _real_queue.Full,
}
exec(_extract(_real_queue, ['Queue', 'PriorityQueue', 'LifoQueue', '_PySimpleQueue']), _q_ns)
Queue = _q_ns['Queue']
PriorityQueue = _q_ns['PriorityQueue']
LifoQueue = _q_ns['LifoQueue']
SimpleQueue = _q_ns['_PySimpleQueue']

queue_proxy = types.ModuleType('simkit.queue_proxy')
for _k, _v in dict(Queue=Queue, PriorityQueue=PriorityQueue, LifoQueue=LifoQueue,
                   SimpleQueue=SimpleQueue, Empty=_real_queue.Empty, Full=_real_queue.Full).items():
    setattr(queue_proxy, _k, _v)

import time as _real_time  # noqa: E402

time_proxy = types.ModuleType('simkit.time_proxy')
for _k in dir(_real_time):
    if not _k.startswith('__'):
        setattr(time_proxy, _k, getattr(_real_time, _k))
time_proxy.time = sim_time
time_proxy.monotonic = sim_monotonic
time_proxy.perf_counter = sim_monotonic
time_proxy.sleep = sim_sleep
time_proxy.time_ns = lambda: int(sim_time() * 1e9)
time_proxy.monotonic_ns = lambda: int(sim_monotonic() * 1e9)


class Mailbox:
    """Kernel-level FIFO usable from kernel context (put) and threads (get)."""

    def __init__(self, name='mailbox'):
        self.items = collections.deque()
        self.waiters = []
        self.name = name

    def put(self, item):
        self.items.append(item)
        kernel.SIM.wake_all(self.waiters)

    def get(self, timeout=None, block=True):
        """timeout None = for ever; returns None on timeout/empty."""
        sim = kernel.SIM
        sim.yield_point('mbox-get')
        if self.items:
            return self.items.popleft()
        if not block:
            return None
        deadline = None if timeout is None else sim.now + timeout
        while True:
            woken = sim.block(self.waiters, deadline, self.name)
            if self.items:
                return self.items.popleft()
            if not woken and deadline is not None and sim.now >= deadline:
                return None

    def __len__(self):
        return len(self.items)
