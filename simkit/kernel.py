"""
Deterministic simulation kernel.

One `Sim` object per run (one run per forked child process).  All simulated
threads are real OS threads, but exactly one of them holds the *baton* at any
time; every other one is parked on a private gate (a raw `_thread` lock).
Which thread runs next, whether time passes while threads are runnable
(stall), where a thread is pre-empted (line budget) — all of it is decided by
`Sim.choose`, which either draws from the schedule PRNG (derived from the
run seed) or replays a recorded decision list.

Nothing in here reads a real clock or an unseeded source of randomness.
"""
import _thread
import hashlib
import heapq
import random
import sys
import traceback

EPOCH = 1_700_000_000.0          # time.time() at virtual instant 0

NEW, RUNNABLE, BLOCKED, DONE = 'new', 'runnable', 'blocked', 'done'

_real_allocate_lock = _thread.allocate_lock
_real_get_ident = _thread.get_ident
_real_start_new_thread = _thread.start_new_thread

SIM = None                       # the Sim of this process (set by Sim.__init__)


class SimAbort(BaseException):
    """Raised inside simulated threads when the run is over (never caught by
    library code because it derives from BaseException)."""


class HarnessError(Exception):
    """The simulator itself failed (step cap, blocking in kernel context, ...)."""


class Decisions:
    """Source of every scheduling decision: PRNG (recording) or replay list."""

    def __init__(self, seed=None, replay=None):
        self.rng = random.Random(seed) if replay is None else None
        self.replay = list(replay) if replay is not None else None
        self.pos = 0
        self.log = []

    def choose(self, n):
        if n <= 1:
            return 0
        if self.replay is not None:
            if self.pos < len(self.replay):
                v = self.replay[self.pos] % n
            else:
                v = 0
            self.pos += 1
        else:
            v = self.rng.randrange(n)
        self.log.append(v)
        return v

    def flip(self, p):
        """True with probability p (recorded as 0/1)."""
        if self.replay is not None:
            if self.pos < len(self.replay):
                v = 1 if self.replay[self.pos] else 0
            else:
                v = 0
            self.pos += 1
        else:
            v = 1 if self.rng.random() < p else 0
        self.log.append(v)
        return bool(v)

    def budget(self, mean):
        """Geometric line budget with the given mean (recorded verbatim)."""
        if self.replay is not None:
            if self.pos < len(self.replay):
                v = max(1, int(self.replay[self.pos]))
            else:
                v = 1 << 30
            self.pos += 1
        else:
            # geometric with mean `mean`
            v = 1
            p = 1.0 / mean
            r = self.rng.random()
            if p < 1.0:
                import math
                v = 1 + int(math.log(1.0 - r) / math.log(1.0 - p)) if r > 0 else 1
        self.log.append(v)
        return v


class SimThreadState:
    """Kernel-side record of a simulated thread."""
    __slots__ = ('tid', 'name', 'state', 'gate', 'woken', 'wait_token', 'waitq',
                 'wait_what', 'os_ident', 'obj', 'exc', 'done_waiters', 'daemon',
                 'frame_holder', 'priority')

    def __init__(self, tid, name, obj):
        self.tid = tid
        self.name = name
        self.priority = 0
        self.state = NEW
        self.gate = _real_allocate_lock()
        self.gate.acquire()
        self.woken = False
        self.wait_token = 0
        self.waitq = None
        self.wait_what = None
        self.os_ident = None
        self.obj = obj
        self.exc = None
        self.done_waiters = []
        self.daemon = False


class Sim:
    def __init__(self, decisions, line_mean=0, p_stall=0.0, stall_window=0.0,
                 sleep_jitter=0.0, trace_roots=(), max_steps=2_000_000,
                 keep_log=False, jitter_rng=None, max_time=3600.0, max_no_progress=400_000,
                 p_starve=0.0, starve_len=200, pct=0, pct_horizon=20000):
        global SIM
        SIM = self
        self.dec = decisions
        self.now = 0.0
        self.seq = 0
        self.heap = []              # (time, seq, fn)
        self.threads = []           # SimThreadState in creation order
        self.live = []              # the same without finished threads (scanned by the scheduler)
        self.by_ident = {}
        self.current = None
        self.in_kernel = False
        self.line_mean = line_mean
        self.line_budget = 1 << 30
        self.p_stall = p_stall
        self.stall_window = stall_window
        # starvation: a pre-empted thread is not scheduled again for a while as long as anything else can run (a thread
        # that lost the CPU at an awkward point: a slow core, a page fault, the GIL going elsewhere)
        self.p_starve = p_starve
        self.starve_len = starve_len
        self.starved = {}
        self.starvations = 0
        # PCT (probabilistic concurrency testing, Burckhardt et al. 2010): every thread gets a random priority, the
        # runnable thread with the highest priority always runs, and at pct-1 random steps the running thread drops
        # below all others.  Finds orderings of small depth that uniform random choice reaches with tiny probability.
        self.pct = pct
        self.pct_points = sorted(self.dec.choose(pct_horizon) for _ in range(max(0, pct - 1))) if pct else []
        self.pct_low = 0
        self.sleep_jitter = sleep_jitter
        self.jitter_rng = jitter_rng or random.Random(0)
        self.trace_roots = tuple(trace_roots)
        self._trace_cache = {}
        self.max_steps = max_steps
        # scheduler steps without the clock advancing: a zero-latency handshake with 600-entry tables needs > 1 M
        self.max_no_progress = max_no_progress
        self.max_time = max_time
        self.steps = 0
        self.steps_no_progress = 0
        self.switches = 0
        self.preemptions = 0
        self.stalls = 0
        self._stall_seen = -1
        self.finished = _real_allocate_lock()
        self.finished.acquire()
        self.over = False
        self.verdict = None         # ('ok'|'deadlock'|'harness'|'violation', info)
        self.main = None
        self.thread_deaths = []     # (thread name, exception repr, traceback text)
        self.digest = hashlib.sha256()
        self.sched_digest = hashlib.sha256()
        self.keep_log = keep_log
        self.events = []
        self.nlog = 0
        self.invariants = []        # callables run after every scheduler step (cheap ones only)

    # ------------------------------------------------------------------ log
    def log(self, kind, *payload):
        self.nlog += 1
        cur = self.current.tid if self.current is not None else -1
        rec = '%d|%.9f|%d|%s|%r' % (self.nlog, self.now, cur, kind, payload)
        self.digest.update(rec.encode())
        if self.keep_log:
            self.events.append(rec)

    # --------------------------------------------------------------- events
    def at(self, t, fn):
        """Schedule fn() in kernel context at virtual time t."""
        self.seq += 1
        if t < self.now:
            t = self.now
        heapq.heappush(self.heap, (t, self.seq, fn))
        return self.seq

    def after(self, d, fn):
        return self.at(self.now + max(0.0, d), fn)

    # -------------------------------------------------------------- threads
    def cur(self):
        """The SimThreadState of the calling OS thread."""
        return self.by_ident.get(_real_get_ident())

    def new_thread(self, name, obj):
        ts = SimThreadState(len(self.threads), name, obj)
        ts.priority = (self.dec.choose(1 << 20) + 1) if self.pct else 0
        self.threads.append(ts)
        self.live.append(ts)
        return ts

    def start_thread(self, ts, fn):
        """Start the OS thread for ts; it parks on its gate until scheduled."""
        def bootstrap():
            ts.gate.acquire()          # wait for the baton
            if self.over:
                return
            ts.os_ident = _real_get_ident()
            try:
                if self.line_mean:
                    sys.settrace(self._global_tracer)
                fn()
            except SimAbort:
                return
            except BaseException as e:       # thread death
                sys.settrace(None)
                ts.exc = e
                self.thread_deaths.append(
                    (ts.name, '%s: %s' % (type(e).__name__, e),
                     ''.join(traceback.format_exception(type(e), e, e.__traceback__))))
                self.log('thread-died', ts.name, type(e).__name__)
            finally:
                sys.settrace(None)
            self._thread_exit(ts)
        ident = _real_start_new_thread(bootstrap, ())
        ts.os_ident = ident
        self.by_ident[ident] = ts
        ts.state = RUNNABLE
        self.log('thread-start', ts.name)

    def _thread_exit(self, ts):
        if self.over:
            return
        ts.state = DONE
        try:
            self.live.remove(ts)
        except ValueError:
            pass
        self.log('thread-exit', ts.name)
        self.wake_all(ts.done_waiters)
        if ts is self.main:
            self._finish('ok', None)
            return
        self._schedule(ts)

    # ----------------------------------------------------------- scheduling
    def _finish(self, kind, info):
        if self.over:
            return
        self.over = True
        self.verdict = (kind, info)
        self.finished.release()

    def abort_current(self):
        """Park the calling thread forever (run is over)."""
        raise SimAbort()

    def fail(self, kind, info):
        """End the run with a verdict from inside a simulated thread/kernel."""
        self._finish(kind, info)
        raise SimAbort()

    def yield_point(self, why=''):
        """A scheduling point for the calling (runnable) thread."""
        if self.in_kernel:
            return
        ts = self.cur()
        if ts is None or self.over:
            if self.over and ts is not None:
                raise SimAbort()
            return
        self._schedule(ts, preempted=True)

    def preempt(self):
        self.preemptions += 1
        ts = self.cur()
        if ts is None:
            return
        self._schedule(ts, preempted=True)

    def block(self, waitq, deadline, what):
        """Block the calling thread on waitq until woken or until `deadline`
        (absolute virtual time, None = for ever).  Returns True if woken."""
        if self.in_kernel:
            raise HarnessError('blocking call in kernel context: %s' % (what,))
        ts = self.cur()
        if ts is None:
            raise HarnessError('blocking call from a non-simulated thread: %s' % (what,))
        if self.over:
            raise SimAbort()
        ts.state = BLOCKED
        ts.woken = False
        ts.wait_token += 1
        ts.waitq = waitq
        ts.wait_what = what
        if waitq is not None:
            waitq.append(ts)
        if deadline is not None:
            token = ts.wait_token

            def timeout(ts=ts, token=token):
                if ts.state == BLOCKED and ts.wait_token == token:
                    if ts.waitq is not None:
                        try:
                            ts.waitq.remove(ts)
                        except ValueError:
                            pass
                    ts.waitq = None
                    ts.state = RUNNABLE
            self.at(deadline, timeout)
        self._schedule(ts)
        return ts.woken

    def wake_all(self, waitq):
        """Make every thread blocked on waitq runnable (any context)."""
        if not waitq:
            return
        for ts in list(waitq):
            if ts.state == BLOCKED:
                ts.state = RUNNABLE
                ts.woken = True
                ts.waitq = None
        del waitq[:]

    def wake_one(self, waitq):
        """Wake one waiter chosen by the scheduler stream."""
        if not waitq:
            return
        i = self.dec.choose(len(waitq)) if len(waitq) > 1 else 0
        ts = waitq.pop(i)
        if ts.state == BLOCKED:
            ts.state = RUNNABLE
            ts.woken = True
            ts.waitq = None

    def _fire_next_event(self):
        t, _, fn = heapq.heappop(self.heap)
        if t > self.now:
            if t > self.max_time:
                # the scenario's main thread did not finish within the virtual time budget
                self._finish('timeout', self.describe_threads())
                return
            self.now = t
            self.steps_no_progress = 0
        self.in_kernel = True
        try:
            fn()
        finally:
            self.in_kernel = False

    def _schedule(self, cur, preempted=False):
        """Pick the next thread to run.  Called by the thread that holds the
        baton; returns when that thread is scheduled again."""
        while True:
            if self.over:
                if cur.state == DONE:
                    return
                raise SimAbort()
            self.steps += 1
            self.steps_no_progress += 1
            if self.steps_no_progress > self.max_no_progress:
                # the system keeps executing without ever blocking or letting time pass: a livelock of the code
                # under test (e.g. a request/reply loop on a zero-latency link), reported like a hang
                self._finish('livelock', self.describe_threads())
                continue
            if self.steps > self.max_steps:
                self._finish('harness', 'step cap reached (steps=%d, no-progress=%d) at t=%.6f'
                             % (self.steps, self.steps_no_progress, self.now))
                continue
            runnable = [t for t in self.live if t.state == RUNNABLE]
            if not runnable:
                if not self.heap:
                    self._finish('deadlock', self.describe_threads())
                    continue
                self._fire_next_event()
                continue
            # due events fire before anything else runs at this instant
            if self.heap and self.heap[0][0] <= self.now:
                self._fire_next_event()
                continue
            # stall: time passes although threads are runnable.  Decided once per pending
            # event (when it becomes the earliest one), not once per scheduling point.
            if (self.p_stall and self.heap and self.heap[0][1] != self._stall_seen and
                    self.heap[0][0] - self.now <= self.stall_window):
                self._stall_seen = self.heap[0][1]
                if self.dec.flip(self.p_stall):
                    self.stalls += 1
                    self._fire_next_event()
                    continue
            if self.p_starve:
                if preempted and cur.state == RUNNABLE and cur.tid not in self.starved and len(runnable) > 1 and \
                        self.dec.flip(self.p_starve):
                    self.starved[cur.tid] = self.steps + self.dec.budget(self.starve_len)
                    self.starvations += 1
                    self.log('starve', cur.tid, self.starved[cur.tid] - self.steps)
                if self.starved:
                    for tid in [k for k, v in self.starved.items() if v <= self.steps]:
                        del self.starved[tid]
                    cands = [t for t in runnable if t.tid not in self.starved]
                    if cands:
                        runnable = cands
            if self.pct:
                while self.pct_points and self.pct_points[0] <= self.steps:
                    self.pct_points.pop(0)
                    self.pct_low -= 1
                    cur.priority = self.pct_low
                pick = max(runnable, key=lambda t: (t.priority, -t.tid))
                break
            pick = runnable[self.dec.choose(len(runnable))]
            break
        if self.line_mean:
            self.line_budget = self.dec.budget(self.line_mean)
        if pick is cur:
            return
        self.switches += 1
        self.sched_digest.update(b'%d,' % pick.tid)
        self.current = pick
        pick.gate.release()
        if cur.state == DONE:
            return
        cur.gate.acquire()
        if self.over:
            raise SimAbort()

    # -------------------------------------------------------------- tracing
    def _global_tracer(self, frame, event, arg):
        code = frame.f_code
        c = self._trace_cache.get(code)
        if c is None:
            fn = code.co_filename
            c = fn.startswith(self.trace_roots) if self.trace_roots else False
            self._trace_cache[code] = c
        if c:
            return self._line_tracer
        return None

    def _line_tracer(self, frame, event, arg):
        if event == 'line':
            self.line_budget -= 1
            if self.line_budget <= 0 and not self.in_kernel and not self.over:
                self.line_budget = 1 << 30
                self.preempt()
        return self._line_tracer

    # ------------------------------------------------------------- running
    def run(self, main_fn, name='main'):
        """Run main_fn as the main simulated thread; returns the verdict."""
        from . import primitives
        t = primitives.SimThread(target=main_fn, name=name)
        self.main = t._ts
        t.start()                       # controller is not a sim thread: no yield
        self.current = self.main
        self.main.gate.release()
        self.finished.acquire()         # wait for the end of the run
        return self.verdict

    def describe_threads(self):
        out = []
        frames = sys._current_frames()
        for t in self.threads:
            if t.state in (DONE, NEW):
                continue
            st = ''
            f = frames.get(t.os_ident)
            if f is not None:
                st = ''.join(traceback.format_stack(f, limit=12))
            out.append({'thread': t.name, 'state': t.state, 'waiting_on': str(t.wait_what),
                        'stack': st})
        return out

    # ---------------------------------------------------------------- time
    def time(self):
        return EPOCH + self.now

    def monotonic(self):
        return self.now

    def sleep(self, d):
        if d is None or d < 0:
            raise ValueError('sleep length must be non-negative')
        if self.in_kernel:
            raise HarnessError('sleep in kernel context')
        extra = 0.0
        if self.sleep_jitter:
            extra = self.jitter_rng.random() * self.sleep_jitter
        if d == 0 and not extra:
            self.yield_point('sleep0')
            return
        self.block(None, self.now + d + extra, ('sleep', d))
