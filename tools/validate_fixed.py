#!/venv/bin/python
"""
Validate replays/fixed/*.json: each must reproduce its violation (same signature; trace digest MATCH) on the tree it was
found on (`found_on` commit of /repo, checked out into a scratch worktree under /tmp that is removed afterwards) and must
not reproduce on the repaired tree (/repo HEAD, also through a scratch worktree so that /repo itself is not touched).

usage: tools/validate_fixed.py [--regen]     (--regen: where a replay no longer matches because the harness changed, search
                                              for the signature again on the found_on tree and overwrite the file)
"""
import json
import os
import re
import subprocess
import sys

VERIF = os.path.dirname(os.path.dirname(os.path.abspath(__file__)))


def sh(*a, **k):
    return subprocess.run(a, capture_output=True, text=True, **k)


def worktree(commit, made):
    d = '/tmp/vf_%s' % commit
    if d not in made:
        sh('git', '-C', '/repo', 'worktree', 'remove', '--force', d)
        r = sh('git', '-C', '/repo', 'worktree', 'add', '--detach', d, commit)
        assert r.returncode == 0, r.stderr
        made.append(d)
    return d


def replay(path, root, cid):
    env = dict(os.environ, CFLIB_ROOT=root)
    r = sh(os.path.join(VERIF, 'check'), cid, '--replay', path, env=env, timeout=900)
    out = r.stdout + r.stderr
    return ('MATCH' in out, 'VIOLATION property=' in out, out)


def main():
    regen = '--regen' in sys.argv
    made = []
    head = sh('git', '-C', '/repo', 'rev-parse', '--short', 'HEAD').stdout.strip()
    rows = []
    try:
        headroot = worktree(head, made)
        for fn in sorted(os.listdir(os.path.join(VERIF, 'replays', 'fixed'))):
            path = os.path.join(VERIF, 'replays', 'fixed', fn)
            d = json.load(open(path))
            cid, commit = d['property'], d['found_on']
            root = worktree(commit, made)
            match, viol, out = replay(path, root, cid)
            note = ''
            if not (match and viol) and regen:
                sig = d['expect']['sig']
                needle = sig.split(' ', 1)[1] if ' ' in sig else sig
                needle = needle.split(' [')[0]
                env = dict(os.environ, CFLIB_ROOT=root, VERIF_TIER='quick')
                r = sh(os.path.join(VERIF, 'tools', 'collect_fixed.py'), cid, needle, path, '12000', env=env, timeout=7200)
                note = 'regenerated' if 'saved' in r.stdout else 'REGEN FAILED: ' + (r.stdout + r.stderr)[-200:]
                if 'saved' in r.stdout:
                    d2 = json.load(open(path))
                    d2['found_on'] = commit
                    json.dump(d2, open(path, 'w'), indent=1)
                    match, viol, out = replay(path, root, cid)
            m2, v2, _ = replay(path, headroot, cid)
            rows.append((fn, commit, 'MATCH' if match else 'differs', 'violation' if viol else 'NO-VIOLATION',
                         'head:reproduces' if v2 else 'head:clean', note))
            print(*rows[-1], flush=True)
    finally:
        for d in made:
            sh('git', '-C', '/repo', 'worktree', 'remove', '--force', d)
        sh('git', '-C', '/repo', 'worktree', 'prune')
    bad = [r for r in rows if r[2] != 'MATCH' or r[3] != 'violation' or r[4] != 'head:clean']
    print('%d replays, %d not in order' % (len(rows), len(bad)))
    json.dump({'head': head, 'rows': rows}, open(os.path.join(VERIF, 'selftest', 'fixed_replays_report.json'), 'w'), indent=1)
    return 1 if bad else 0


if __name__ == '__main__':
    sys.exit(main())
