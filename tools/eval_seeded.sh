#!/bin/bash
# usage: tools/eval_seeded.sh <property id> [name]   — confirm a seeded change in its scratch worktree, then run our check on it
ID=$1; NAME=${2:-$ID}
W=/tmp/mut/$NAME; O=/tmp/mut_out/$NAME
cd $W || exit 1
cp $O/patch.diff /tmp/eval_$NAME.patch
[ -s /tmp/eval_$NAME.patch ] || { echo "no patch"; exit 1; }
git checkout -q -- . ; git apply /tmp/eval_$NAME.patch || { echo "patch does not apply"; exit 1; }
echo "--- demo with change:"; (cd $W && PYTHONPATH=$W timeout 300 /venv/bin/python $O/demo.py > /tmp/eval_$NAME.demo1 2>&1; echo "exit=$?")
echo "--- unit tests with change:"; (cd $W && timeout 900 /venv/bin/python -m pytest -q -p no:cacheprovider test 2>&1 | tail -1)
git checkout -q -- .
echo "--- demo without change:"; (cd $W && PYTHONPATH=$W timeout 300 /venv/bin/python $O/demo.py > /tmp/eval_$NAME.demo0 2>&1; echo "exit=$?")
git apply /tmp/eval_$NAME.patch
echo "--- our check on /repo with the change:"
git -C /repo apply /tmp/eval_$NAME.patch || { echo "does not apply to /repo"; exit 1; }
cd /verif; timeout 1200 ./check $ID --tier quick --no-minimise > /tmp/eval_$NAME.check 2>&1; echo "check exit=$?"
git -C /repo checkout -- .
grep -E "quick:|^  signature|DID NOT|HARNESS" /tmp/eval_$NAME.check | cut -c1-200
git -C /repo status --short | head -2
