#!/venv/bin/python
"""Apply every seeded change to /repo in turn, run the property's quick check, undo, and record the outcome in
seeded/<name>/meta.json (fields 'check_result').  usage: tools/run_seeded.py [names...]"""
import json
import os
import re
import subprocess
import sys
import time

VERIF = os.path.dirname(os.path.dirname(os.path.abspath(__file__)))


def main():
    names = sys.argv[1:] or sorted(os.listdir(os.path.join(VERIF, 'seeded')))
    for name in names:
        d = os.path.join(VERIF, 'seeded', name)
        patch = os.path.join(d, 'patch.diff')
        if not os.path.exists(patch):
            continue
        pid = name.split('-')[0]
        st = subprocess.run(['git', '-C', '/repo', 'status', '--short'], capture_output=True, text=True).stdout.strip()
        assert not st, '/repo is dirty: ' + st
        subprocess.run(['git', '-C', '/repo', 'apply', patch], check=True)
        t0 = time.time()
        try:
            p = subprocess.run([os.path.join(VERIF, 'check'), pid, '--tier', 'quick', '--no-minimise'],
                               capture_output=True, text=True, timeout=1500)
            out, rc = p.stdout, p.returncode
        finally:
            subprocess.run(['git', '-C', '/repo', 'checkout', '--', '.'], check=True)
        sigs = re.findall(r'^  signature (.*?)\s+x(\d+) \(first seed (\d+)\)', out, re.M)
        known = set(re.findall(r'^KNOWN-FINDING', out, re.M))
        summ = re.findall(r'^%s quick: .*' % pid, out, re.M)
        meta_path = os.path.join(d, 'meta.json')
        meta = json.load(open(meta_path)) if os.path.exists(meta_path) else {'property': pid}
        meta['check_result'] = {
            'command': './check %s --tier quick (with the change applied to /repo, undone afterwards)' % pid,
            'exit_code': rc, 'caught': rc == 1, 'wall_s': round(time.time() - t0, 1),
            'summary': summ[0][:300] if summ else '',
            'signatures': [{'signature': s, 'runs': int(n), 'first_seed': int(fs)} for s, n, fs in sigs],
        }
        json.dump(meta, open(meta_path, 'w'), indent=1)
        print(name, 'rc=%d' % rc, 'caught' if rc == 1 else 'MISSED', [s for s, _, _ in sigs if '[' not in s][:4], flush=True)


if __name__ == '__main__':
    main()
