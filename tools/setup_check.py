#!/venv/bin/python
"""MANIFEST.setup_cmd: nothing to build; verify the interpreter and the repository's dependencies."""
import os
import sys
here = os.path.dirname(os.path.dirname(os.path.abspath(__file__)))
sys.path.insert(0, here)
import numpy, scipy, usb, yaml, libusb_package  # noqa
for d in ('evidence', 'replays'):
    os.makedirs(os.path.join(here, d), exist_ok=True)
from simkit import seams  # noqa
seams.load_cflib()
import cflib  # noqa
print('setup ok: python', sys.version.split()[0], 'cflib from', os.path.dirname(cflib.__file__))
