#!/venv/bin/python
"""
Find, minimise and save a replay for a given (check, signature substring) on the tree named by CFLIB_ROOT.
Used to document the defects that were repaired by fix: commits (replays/fixed/*.json fail on the tree before the
fix and pass on the repaired tree).

usage: CFLIB_ROOT=/path/to/old/tree tools/collect_fixed.py <ID> <signature substring> <out.json> [max seeds]
"""
import json
import os
import sys

VERIF = os.path.dirname(os.path.dirname(os.path.abspath(__file__)))
sys.path.insert(0, VERIF)

if os.environ.get('PYTHONHASHSEED') != '0':
    os.environ['PYTHONHASHSEED'] = '0'
    os.execve(sys.executable, [sys.executable] + sys.argv, os.environ)

from concurrent.futures import ProcessPoolExecutor  # noqa: E402
import multiprocessing  # noqa: E402

from simkit import cli, harness  # noqa: E402


def main():
    cid, needle, out = sys.argv[1], sys.argv[2], sys.argv[3]
    maxn = int(sys.argv[4]) if len(sys.argv) > 4 else 6000
    check = cli.load_check(cid)
    plans = (list(check.directed(os.environ.get('VERIF_TIER', 'quick'))) if hasattr(check, 'directed') else [])
    found = None
    ctx = multiprocessing.get_context('fork')

    def work(plan):
        return plan, harness.run_in_child(check, plan, want_decisions=True)
    batch = 64
    i = 0
    seeds = iter(range(1_000_003, 1_000_003 + maxn))
    pending = list(plans)
    if os.environ.get('VERIF_SEEDS'):
        # look at these plan seeds first (e.g. the seed a soak run printed)
        pending = [check.gen(int(x)) for x in os.environ['VERIF_SEEDS'].split(',')] + pending
    while found is None:
        todo = pending[:batch]
        pending = pending[batch:]
        while len(todo) < batch:
            try:
                todo.append(check.gen(next(seeds)))
            except StopIteration:
                break
        if not todo:
            break
        with ProcessPoolExecutor(max_workers=16, mp_context=ctx) as ex:
            for plan, res in ex.map(_work, [(cid, p) for p in todo]):
                for v in res.get('violations', []):
                    if needle in v['sig'] and found is None:
                        found = (plan, res, v)
        i += len(todo)
    if found is None:
        print('not found in %d plans' % i)
        return 1
    plan, res, v = found
    sig = v['sig']
    mplan, mres = harness.minimise(check, plan, res, sig, budget_s=120)
    mv = next((x for x in mres.get('violations', []) if x['sig'] == sig), v)
    os.makedirs(os.path.dirname(out), exist_ok=True)
    with open(out, 'w') as f:
        json.dump({'property': cid, 'plan': mplan,
                   'expect': {'sig': sig, 'digest': mres.get('digest'), 'clause': mv['clause'], 'message': mv['msg']},
                   'found_on': os.environ.get('CFLIB_ROOT', '/repo'), 'original_seed': plan.get('seed')},
                  f, indent=1, default=repr)
    print('saved %s: %s (ops %d -> %d, decisions %d)' % (out, sig, len(plan.get('ops') or []), len(mplan.get('ops') or []),
                                                       len((mplan.get('sched') or {}).get('decisions', []))))
    return 0


_checks = {}


def _work(arg):
    cid, plan = arg
    if cid not in _checks:
        _checks[cid] = cli.load_check(cid)
    return plan, harness.run_in_child(_checks[cid], plan, want_decisions=True)


if __name__ == '__main__':
    sys.exit(main())
