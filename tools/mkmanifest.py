#!/venv/bin/python
"""Regenerate MANIFEST.json from the table below (run after adding a check)."""
import json
import os

VERIF = os.path.dirname(os.path.dirname(os.path.abspath(__file__)))

CLAIMED = {
    'C02': ('5', 'whole Crazyflie/SyncCrazyflie life cycle against a firmware model: link failure after every k-th packet, '
                 'close at seeded instants, line-level thread interleavings; callback-history grammar, bounded liveness, '
                 'no dead thread, reconnect'),
    'C03': ('5', 'TOC download against generated device tables (sizes across the 8-bit boundary, both protocol generations) '
                 'under duplicated, delayed and lost replies; table equality and lookup consistency at connected'),
    'C04': ('5', 'concurrent set/read/persistent requests from several threads against a parameter store with reply delays '
                 'and unsolicited notifications; wire encoding, refusal, issue order, reply attribution, cache == device'),
    'C05': ('5', 'log block life cycle against a firmware log model with virtual-time sampling; accept/reject, creation '
                 'messages, bit-exact decoding, flags follow acks, re-add after reconnect, SyncLogger iteration'),
    'C06': ('5', 'chunked memory reads/writes from several threads with duplicated/late/error replies, link drop after every '
                 'k-th reply and close; exact data, exactly-one completion, order, no leaked lock or record'),
    'C07': ('5', 'real dispatcher thread fed by a simulated link with callbacks that add/remove/raise during dispatch; '
                 'independent matcher with must/may/must-not per (packet, registration)'),
    'C01': ('5', 'real radio driver stack (RadioDriver, shared-radio thread, Crazyradio, safelink loop) over a fake USB dongle '
                 'and an ESB/safelink peer; seeded and enumerated per-transmission outcomes, USB errors; exactly-once in '
                 'order both ways, exact link-error threshold, safelink only when confirmed'),
    'C11': ('5', 'process lives over a simulated file system with crash-at-any-byte of unsynced cache files, read-only and '
                 'read-write directories, log/param checksum collision; no wrong table, no failed connection, RO never '
                 'written'),
    'C12': ('5', 'Bootloader flashing a simulated target with seeded geometry under lost / negative flash-write replies '
                 '(enumerated patterns); flash equality, untouched pages, packet limits, bounded retries then abort'),
    'C17': ('5', 'MotionCommander setpoint thread vs commanding thread and PositionHlCommander in virtual time with sleep '
                 'jitter; stop / notify always last, stream period, height integration, displacement, dead reckoning'),
    'C18': ('5', 'CPX over an in-memory socket with seeded and enumerated fragmentation, router, pump and consumer threads; '
                 'framing, per-function FIFO, version rejection, CRTP tunnel both ways'),
    'C19': ('5', 'Swarm member threads under the scheduler with every failing subset; exactly-once, order, join before '
                 'return, error chaining, close-all on failed open, real SyncCrazyflie members'),
    'C10': ('5', 'retry timers in virtual time against lost/delayed replies, shared-prefix patterns, close/reopen with timers '
                 'pending; interval, no retransmission after answer, longest-prefix cancel, none across sessions'),
}

NA_PURE = {
    'C08': 'pure encoders of their arguments (struct.pack per command); no thread, clock, retry or peer to simulate',
    'C09': 'pure numerical pipeline (numpy/scipy least squares) over a sample list; no schedule, fault or I/O',
    'C13': 'pure numeric codecs of their input; nothing blocks, times out, retries or shares state',
    'C14': 'pure serialise/parse round trips of byte images; a corrupted byte is an input, not a fault at an instant of an execution',
    'C15': 'pure geometry conversions of their inputs',
    'C16': 'pure numerical optimisation of its inputs',
    'C20': 'pure URI parsing / driver selection (incidentally exercised by C01/C02, not claimed)',
}

NOT_YET = {}

ALL = ['C%02d' % i for i in range(1, 21)]


def main():
    checks = []
    for pid in ALL:
        if pid not in CLAIMED:
            continue
        sec, what = CLAIMED[pid]
        checks.append({
            'property_id': pid,
            'quick_cmd': './check %s --tier quick' % pid,
            'thorough_cmd': './check %s --tier thorough' % pid,
            'evidence_file': 'evidence/%s.json' % pid,
            'replay_cmd_template': './check %s --replay {path}' % pid,
            'engine': 'simkit',
            'level_claimed': {
                'category': 'exploration',
                'text': 'Seeded search over schedules, fault sequences and workloads with the real cflib code running '
                        'inside a deterministic simulator (%s). A clean batch is evidence, not proof; directed sweeps '
                        'enumerate small finite fault spaces completely and are reported separately in the evidence.'
                        % what,
                'design_ref': 'DESIGN.md section 5 (%s), section 2 (simulator)' % pid,
            },
            'level_note': 'Trusted base: the simulator kernel (simkit), CPython\'s own Condition/Event/Semaphore/Queue '
                          'logic running on simulated locks, and the reference models of the firmware / radio / '
                          'bootloader / file system (world/*), whose interpretive choices are listed in the evidence '
                          'assumptions. Interleavings are explored at line granularity inside cflib files only.',
            'technique': 'deterministic simulation with fault injection (seeded scheduler over real threads, virtual '
                         'time, simulated link/firmware, seeded + directed fault plans, replayable minimised traces)',
        })
    na = []
    for pid in ALL:
        if pid in CLAIMED:
            continue
        if pid in NA_PURE:
            na.append({'property_id': pid, 'reason': 'not applicable to deterministic simulation: ' + NA_PURE[pid]})
        else:
            na.append({'property_id': pid, 'reason': NOT_YET.get(
                pid, 'claim withdrawn for now: the simulated check for this property is not built yet (see DESIGN.md)')})
    doc = {
        'version': 1,
        'setup_cmd': '/venv/bin/python tools/setup_check.py',
        'hooks': {
            'guard': 'CFLIB_VERIF',
            'enable': 'no hook exists in /repo: every seam (threading, queue, time, socket, usb, open/glob/os, '
                      'cflib.crtp.CLASSES) is a module-level name that the simulator rebinds from outside while it '
                      '(re)imports cflib from the current /repo working tree; CFLIB_VERIF is unused by /repo',
            'baseline_off_cmd': 'cd /repo && /venv/bin/python -m pytest -ra -q -p no:cacheprovider --timeout=900 '
                                '--continue-on-collection-errors',
            'source_commits': [],
            'add_only': True,
        },
        'engines': [{
            'name': 'simkit',
            'path': 'simkit/',
            'serves_properties': sorted(CLAIMED),
            'kind_free_text': 'deterministic simulator: baton-passing scheduler over real threads with line-level '
                              'pre-emption (uniform random choice, PCT priority schedules, thread starvation), '
                              'discrete-event virtual clock with stalls, fork-per-run worker pool, '
                              'decision-log replay, ddmin minimiser; world/ holds the simulated link, firmware, radio, '
                              'bootloader, file system and socket models',
        }],
        'checks': checks,
        'not_applicable': na,
        'notes': 'See DESIGN.md. known_findings.json lists genuine defects that are recorded rather than repaired, and '
                 'the fix: commits made in /repo. Exit code 2 = HARNESS-ERROR (never reported as held).',
    }
    with open(os.path.join(VERIF, 'MANIFEST.json'), 'w') as f:
        json.dump(doc, f, indent=1)
    print('claimed', sorted(CLAIMED), 'n/a', [x['property_id'] for x in na])


if __name__ == '__main__':
    main()
