"""
C03 — downloaded log and parameter tables equal the device tables.

Real: PlatformService, Log.refresh_toc, Param.refresh_toc, TocFetcher, LogTocElement, ParamTocElement,
_ExtendedTypeFetcher, TocCache (absent / empty / warm, over SimFS), dispatcher, retry timers.
Stub: SimLink, SimCF.
"""
import random

from simkit import primitives as P
from simkit.harness import H, cflib_site
from world import gen as wgen
from . import common

ID = 'C03'
BUDGET = {'quick': 50, 'thorough': 900}
MINIMISE_OPS = False

EVIDENCE = {
    'rule': 'Each run connects one Crazyflie to a generated firmware: table sizes from {0,1,2,3,...,254,255,256,257,..600} '
            '(legacy protocol <= 255), group/name lengths up to the packet limit, all type codes, RO/extended/persistent '
            'markers, protocol version in {-1,0..10}; replies are duplicated, delayed past the 0.2 s retry timer (so the '
            'library re-requests and the device answers twice) and, on links that need resending, lost.',
    'directed': 'table sizes {0,1,2,254,255,256,257} x protocol generation x {no fault, duplicate every reply}',
    'real': ['PlatformService', 'Log.refresh_toc', 'Param.refresh_toc', 'TocFetcher', 'LogTocElement', 'ParamTocElement',
             '_ExtendedTypeFetcher', 'Toc', 'Crazyflie dispatcher and retry timers'],
    'stub': ['SimLink', 'SimCF TOC services (DESIGN Appendix A)'],
    'assumptions': [
        'stale replies are replies to requests of this session (a FIFO device cannot produce others)',
        'cache present: a second Crazyflie object connects over the same (simulated) read-write cache directory; crash '
        'consistency of the cache is C11\'s subject',
        'requests without an expected reply (platform version, link source) are never lost: the library promises no '
        'recovery for them',
        'log TOC type byte is the plain type id 1..8 (the library rejects any other value with KeyError)',
    ],
}

SIZES = [0, 1, 2, 3, 5, 8, 13, 30, 60, 120, 254, 255, 256, 257, 300, 600]


def gen(seed):
    rng = random.Random(H(seed, 'plan'))
    knobs = common.sched_knobs(rng)
    knobs['needs_resending'] = rng.random() < 0.6
    knobs['lat'] = rng.choice([(0.0005, 0.003), (0.0, 0.0), (0.002, 0.02)])
    version = rng.choice([10, 10, 10, 9, 8, 7, 5, 4, 3, 1, 0, -1])
    big = rng.random() < 0.06
    pool = SIZES if big else SIZES[:9]
    n_log, n_param = rng.choice(pool), rng.choice(pool)
    dev = wgen.gen_device(rng, n_log=n_log, n_param=n_param, version=version, mems=[])
    rates = {}
    mode = rng.choice(['clean', 'dup', 'delay', 'loss', 'mix'])
    if big:
        mode = rng.choice(['clean', 'dup'])
    if mode in ('dup', 'mix'):
        rates['down_dup'] = rng.choice([0.05, 0.3, 1.0])
    if mode in ('delay', 'mix'):
        rates['down_delay'] = rng.choice([0.05, 0.2])
    if mode in ('loss', 'mix') and knobs['needs_resending']:
        rates['up_loss'] = rng.choice([0.05, 0.2])
        rates['down_loss'] = rng.choice([0.05, 0.2])
    knobs['rates'] = rates
    if big and knobs.get('pct'):
        # priority schedules re-decide at (almost) every line: too slow for 600-entry tables
        for k_ in ('pct', 'pct_horizon'):
            knobs.pop(k_, None)
        knobs['line_mean'] = 40
    knobs['unsolicited'] = rng.random() < 0.2
    knobs['cache'] = (not big) and rng.random() < 0.3      # second connection served by the table cache (SimFS)
    if not big and rng.random() < 0.25:
        # the object has a history: an earlier connection on it was lost while the tables were being downloaded - the
        # error is reported from inside the k-th send_packet call (as the radio / USB drivers do), i.e. on the thread that
        # is downloading, so this is a sequential history, not a race
        knobs['prior_failure'] = {'after': rng.randint(1, 3 + n_log + n_param), 'mode': 'sender', 'block': 0}
    knobs['max_steps'] = 30_000_000
    knobs['max_no_progress'] = 30_000_000      # zero-latency handshakes with 600-entry tables
    return {'seed': seed, 'scenario': 'toc-' + mode, 'knobs': knobs, 'device': dev, 'ops': []}


def directed(tier):
    plans = []
    rng = random.Random(777)
    n = 0
    for version in (10, 3):
        for size in ((0, 1, 2, 254, 255, 256, 257) if tier == 'quick' else
                     (0, 1, 2, 3, 4, 5, 127, 128, 253, 254, 255, 256, 257, 258, 259, 511, 512, 513, 600)):
            if version < 4 and size > 255:
                continue
            for dup in (0.0, 1.0):
                n += 1
                dev = wgen.gen_device(rng, n_log=size, n_param=size, version=version, mems=[])
                plans.append({'seed': 910000 + n, 'scenario': 'directed-size-%d-v%d' % (size, version),
                              'knobs': {'line_mean': 0, 'p_stall': 0.0, 'needs_resending': True,
                                        'lat': (0.0005, 0.003), 'rates': {'down_dup': dup} if dup else {}},
                              'device': dev, 'ops': []})
    return plans


def execute(ctx):
    from cflib.crazyflie import Crazyflie
    plan = ctx.plan
    sim = ctx.sim
    w, devs = common.make_world(ctx, {'cf': plan['device']})
    dev = devs['cf']
    # only packets the library retries may be lost
    w.lossy = lambda direction, header, data: retried(header, data)
    w.dupable = retried          # pings and other traffic are not delayed: a FIFO link would otherwise saturate
    ctx.notes['nontrivial'] = plan['scenario'].startswith('directed')
    done = {}

    def on_connected(uri):
        cf = done['cf']
        d = common.compare_log_toc(cf, dev)
        if d:
            ctx.violation('1-2', 'log-table-differs', 'at connected: %s' % d[:5])
        d = common.compare_param_toc(cf, dev)
        if d:
            ctx.violation('1-2', 'param-table-differs', 'at connected: %s' % d[:5])
        d = common.lookup_consistency(cf.log.toc, 'log') + common.lookup_consistency(cf.param.toc, 'param')
        if d:
            ctx.violation('3', 'lookup-inconsistent', 'at connected: %s' % d[:5])
        done['connected'] = sim.now

    cache = ctx.knobs.get('cache')
    if cache:
        from world.simfs import SimFS
        fs = SimFS()
        fs.install()

    def one_connection(round_):
        done.pop('connected', None)
        cf = Crazyflie(rw_cache='/rw') if cache else Crazyflie()
        pf = ctx.knobs.get('prior_failure')
        if pf and round_ == 0:
            # the failed earlier connection of this object
            end = {}
            cbs_ = [(cf.disconnected, lambda uri: end.setdefault('t', sim.now)),
                    (cf.connection_failed, lambda uri, msg: end.setdefault('t', sim.now))]
            for c_, f_ in cbs_:
                c_.add_callback(f_)
            w.fail_plan.append(dict(pf))
            cf.open_link('sim://cf')
            common.wait_until(sim, lambda: 't' in end, 30.0, 0.005)
            if 't' not in end:
                # the connection completed before the k-th packet: close it normally
                cf.close_link()
            else:
                ctx.probe('earlier connection of the object lost during the download')
            for c_, f_ in cbs_:
                try:
                    c_.remove_callback(f_)
                except ValueError:
                    pass
            common.wait_until(sim, lambda: cf.link is None, 10.0, 0.005)
            P.sim_sleep(0.3)
        done['cf'] = cf
        cf.connected.add_callback(on_connected)
        if ctx.knobs.get('unsolicited') and dev.v2 and dev.param_toc:
            # unsolicited value-updated notifications while the tables are being downloaded / loaded from the cache
            def note():
                if 'connected' not in done and done.get('cf') is cf:
                    dev.notify_param(ctx.work.randrange(len(dev.param_toc)))
                    sim.after(0.004, note)
            sim.after(0.001 if round_ else 0.01, note)
        cf.open_link('sim://cf')
        n = len(dev.log_toc) + len(dev.param_toc)
        bound = 60 + n * 1.0
        if not common.wait_until(sim, lambda: 'connected' in done, bound, 0.02):
            ctx.violation('0', 'never-connected', 'connected not signalled within %.0f s (connection %d, cache %s); fired=%s'
                          % (bound, round_, bool(cache), ctx.faults.fired_counts()),
                          [(t['thread'], t['waiting_on']) for t in sim.describe_threads()])
            return False
        P.sim_sleep(0.5)
        cf.close_link()
        P.sim_sleep(0.3)
        return True

    def scenario():
        if not one_connection(0):
            return
        if cache:
            # a second Crazyflie object over the same cache directory: the tables now come from the cache
            n0 = len(dev.toc_requests)
            if one_connection(1):
                if not any(t[3] in (0, 2) for t in dev.toc_requests[n0:]):
                    ctx.probe('tables taken from the cache')

    verdict = sim.run(scenario)
    if verdict[0] in ('deadlock', 'timeout', 'livelock'):
        from simkit.harness import hang_signature
        sg, msg = hang_signature(verdict)
        ctx.violation('0', sg, msg, verdict[1])
    for name, exc, tb in sim.thread_deaths:
        ctx.violation('0', 'thread-died %s @%s' % (exc.split(':')[0], cflib_site(tb)),
                      'library thread %s died: %s' % (name, exc), tb)
    # clause 4: the requests the device saw are within protocol
    if dev.protocol_errors:
        ctx.violation('4', 'protocol-error %s' % (dev.protocol_errors[0][0],), 'device saw %s' % dev.protocol_errors[:4])
    if len(dev.log_toc) > 255 or len(dev.param_toc) > 255:
        ctx.probe('table larger than 255 entries')
    if len(dev.log_toc) == 0 or len(dev.param_toc) == 0:
        ctx.probe('empty table')
    if any(t[3] in (0, 2) for t in dev.toc_requests):
        reqs = {}
        for t in dev.toc_requests:
            if t[4] is not None:
                reqs[(t[2], t[4])] = reqs.get((t[2], t[4]), 0) + 1
        if any(v > 1 for v in reqs.values()):
            ctx.probe('element requested more than once (retry)')


def retried(header, data):
    port = (header >> 4) & 0xF
    ch = header & 3
    if port in (2, 5) and ch == 0:
        return True
    if port == 2 and ch == 3 and len(data) >= 1 and data[0] == 2:
        return True
    if port == 5 and ch == 1 and len(data) >= 1 and data[0] == 5:
        return True
    return False
