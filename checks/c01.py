"""
C01 — the radio link delivers every packet exactly once, in order, despite loss; exact link-error threshold.

Real: RadioDriver (incl. URI parsing), RadioManager, _SharedRadio thread, _SharedRadioInstance, Crazyradio,
_RadioDriverThread (safelink), RadioLinkStatistics, CRTPPacket.  Stub: FakeDongle + NrfPeer + air.
"""
import random

from simkit import primitives as P
from simkit.harness import H, cflib_site
from world import radio as wradio
from . import common

ID = 'C01'
BUDGET = {'quick': 50, 'thorough': 900}
MINIMISE_OPS = True

EVIDENCE = {
    'rule': 'Each run opens a real RadioDriver on a fresh radio URI (dongle 0, random channel / rate / 1-10 digit address) '
            'over a fake dongle and an ESB+safelink peer; 1-3 application threads submit uniquely numbered packets at '
            'seeded instants, the peer queues uniquely numbered downlink packets, a receiver thread drains receive_packet; '
            'every air transmission gets an outcome {ok, uplink lost, ack lost} from seeded rates with bursts, plus USB '
            'errors; knobs: retries before disconnect, ARC, rate limit, safelink capable or not.  30 % of the random runs '
            'are multi-link (checks/c01m.py): 2-4 RadioDriver links share the one dongle through RadioManager / '
            '_SharedRadio, each to its own peer on its own (channel, rate, address) - pairwise sharing the channel or the '
            'address -; one peer may go out of range, one link may be closed or closed and re-opened mid-run, or all links '
            'are closed (dongle released) and re-opened; the single-link oracle is applied per link and session on the '
            'transfers made while the dongle was tuned to that peer, plus isolation (no packet of link A at peer B or out '
            'of link B) and per-link liveness after the faults stop.',
    'directed': 'all 3^k per-transmission outcome prefixes (k = 5 quick / 7 thorough) with ARC 0, then a clean channel; '
                'two links on one dongle with all 3^k outcome prefixes (k = 3 / 5) applied to their interleaved transfers',
    'real': ['RadioDriver', 'RadioManager', '_SharedRadio', '_SharedRadioInstance', 'Crazyradio', '_RadioDriverThread',
             'RadioLinkStatistics', 'CRTPPacket', 'queue.Queue / Semaphore logic (CPython source on simulated locks)'],
    'stub': ['FakeDongle (pyusb device: vendor requests, bulk write/read, ARC retries, status byte)',
             'NrfPeer (ESB PID de-duplication, safelink bit logic, RSSI empty acks)', 'air (per-transmission outcomes)'],
    'assumptions': [
        'NrfPeer follows the nRF firmware rule: advance on changed bit, retransmit the last ack on the same bit, reset both '
        'counters on the safelink request; empty acks carry the safelink bits (RSSI ack), without which safelink cannot work',
        'exactly-once/in-order is claimed only when the host obtained safelink and short of a link failure',
        'empty/RSSI acks (surfaced by the driver as port 15 channel 3) are filtered: the workload never uses that header',
        'a USB transfer error is equivalent to a lost transmission (write error) or a lost ack (read error)',
    ],
}


def gen(seed):
    rng = random.Random(H(seed, 'plan'))
    knobs = common.sched_knobs(rng)
    if rng.random() < 0.3:
        from . import c01m
        return c01m.gen(seed, rng, knobs)
    addr = ''.join(rng.choice('0123456789ABCDEFabcdef') for _ in range(rng.choice([1, 4, 9, 10, 10])))
    knobs.update({
        'channel': rng.randrange(126), 'rate': rng.choice(['250K', '1M', '2M']), 'addr': addr,
        'retries': rng.choice([2, 3, 5, 20, 100]), 'arc': rng.choice([0, 1, 3]),
        'rate_limit': rng.choice([None, None, 500, 100]),
        'safelink': rng.random() < 0.85,
        'airtime': rng.choice([0.0005, 0.001, 0.002]),
    })
    mode = rng.choice(['clean', 'light', 'heavy', 'burst', 'usb', 'dead'])
    rates = {}
    if mode == 'light':
        rates['air'] = [0.05, 0.05]
    elif mode == 'heavy':
        rates['air'] = [rng.choice([0.2, 0.3]), rng.choice([0.2, 0.3])]
    elif mode == 'burst':
        rates['air'] = [0.1, 0.1]
        knobs['burst'] = {'every': rng.choice([20, 50]), 'len': rng.choice([2, 4, 8, 30])}
    elif mode == 'usb':
        rates['air'] = [0.05, 0.05]
        rates['usb_write_err'] = 0.03
        rates['usb_read_err'] = 0.03
    elif mode == 'dead':
        knobs['dead_at'] = round(rng.uniform(0.0, 0.3), 4)
    knobs['rates'] = rates
    nup = rng.choice([0, 1, 5, 20, 60])
    ndown = rng.choice([0, 1, 5, 20, 60])
    ops = []
    for i in range(nup):
        ops.append(['up', rng.randrange(3), round(rng.uniform(0, 0.3), 4), rng.randrange(16), rng.randrange(4),
                    rng.randrange(0, 27)])
    for i in range(ndown):
        ops.append(['down', round(rng.uniform(0, 0.3), 4), rng.randrange(15), rng.randrange(4), rng.randrange(0, 27)])
    return {'seed': seed, 'scenario': 'radio-' + mode, 'knobs': knobs, 'ops': ops}


def directed(tier):
    k = 5 if tier == 'quick' else 7
    plans = []
    n = 0
    import itertools
    for prefix in itertools.product((0, 1, 2), repeat=k):
        n += 1
        # skipped prefixes that would exceed the failure threshold are impossible with retries=100
        plans.append({'seed': 970000 + n, 'scenario': 'directed-outcome-prefix', 'knobs': {
            'line_mean': 0, 'p_stall': 0.0, 'channel': 80, 'rate': '2M', 'addr': 'E7E7E7E7E7', 'retries': 100, 'arc': 0,
            'rate_limit': None, 'safelink': True, 'airtime': 0.001, 'rates': {}, 'forced_after_negotiation': list(prefix)},
            'ops': [['up', 0, 0.0, 3, 0, 2], ['up', 0, 0.0, 3, 1, 3], ['up', 1, 0.001, 7, 0, 1],
                    ['down', 0.0, 5, 2, 4], ['down', 0.0, 2, 1, 2], ['down', 0.004, 0, 0, 6]]})
    from . import c01m
    return plans + c01m.directed(tier)


def execute(ctx):
    if ctx.plan.get('links'):
        from . import c01m
        return c01m.execute(ctx)
    import cflib.crtp.radiodriver as rd
    from cflib.crtp.crtpstack import CRTPPacket
    plan = ctx.plan
    sim = ctx.sim
    kn = ctx.knobs
    air = wradio.Air(sim, ctx.faults, airtime=kn.get('airtime', 0.001))
    rate_code = {'250K': 0, '1M': 1, '2M': 2}[kn['rate']]
    addr_hex = '{:0>10}'.format(kn['addr'])
    address = tuple(bytes.fromhex(addr_hex))
    peer = wradio.NrfPeer(kn['channel'], rate_code, address, safelink=kn['safelink'])
    air.peers.append(peer)
    dongle = wradio.FakeDongle(air)
    wradio.install([dongle])
    ctx.notes['nontrivial'] = plan['scenario'].startswith('directed')
    rd.set_retries_before_disconnect(kn['retries'])
    rd.set_retries(kn['arc'])
    uri = 'radio://0/%d/%s/%s' % (kn['channel'], kn['rate'], kn['addr'])
    if kn.get('rate_limit'):
        uri += '?rate_limit=%d' % kn['rate_limit']
    errors = []           # (t, msg, index into dongle.results at that moment)
    order = []
    accepted = []         # payload bytes accepted by send_packet (returned True), in acceptance order per thread merged by time
    received = []         # non-null packets out of receive_packet
    st = {}
    ups = [o for o in plan['ops'] if o[0] == 'up']
    downs = sorted([o for o in plan['ops'] if o[0] == 'down'], key=lambda o: o[1])

    def mk_payload(kind, i, ln):
        tag = bytes([0xA0 if kind == 'up' else 0xB0, i & 0xFF, (i >> 8) & 0xFF])
        return (tag + bytes((i + j) & 0xFF for j in range(ln)))[:max(3, min(30, ln + 3))]

    def scenario():
        drv = rd.RadioDriver()
        st['drv'] = drv

        def err_cb(msg):
            errors.append((sim.now, msg, len(dongle.results)))
            ctx.obs('link-error', msg[:30])
        drv.connect(uri, None, err_cb)
        # acceptance order = the order in which packets enter the one-slot out queue (observed with its mutex held)
        q = drv.out_queue
        orig_put = q._put

        def _put(pk):
            order.append(bytes([pk.header]) + bytes(pk.data))
            return orig_put(pk)
        q._put = _put
        # burst losses / dead link, driven from kernel events
        if kn.get('forced_after_negotiation') is not None:
            st['forced'] = list(kn['forced_after_negotiation'])
        if kn.get('dead_at') is not None:
            def kill():
                air.forced = [1] * 100000
                st['dead'] = sim.now
            sim.after(kn['dead_at'], kill)
        if kn.get('burst'):
            b = kn['burst']

            def burst():
                if not st.get('closing'):
                    air.forced = (air.forced or []) + [ctx.work.choice([1, 2]) for _ in range(b['len'])]
                    sim.after(b['every'] * air.airtime * 3, burst)
            sim.after(0.02, burst)
        t0 = sim.now
        # peer-side producer of downlink packets (kernel events)
        for di, o in enumerate(downs):
            port = o[2] if not (o[2] == 15 and o[3] == 3) else 14
            data = bytes([((port & 0xF) << 4) | 0x0C | (o[3] & 3)]) + mk_payload('down', di, o[4])
            sim.at(t0 + o[1], lambda data=data: peer.queue_downlink(data))
        threads = []
        for ti in range(3):
            mine = sorted([(ui, o) for ui, o in enumerate(ups) if o[1] == ti], key=lambda x: x[1][2])
            if not mine:
                continue

            def sender(mine=mine):
                for ui, o in mine:
                    if errors or (st.get('dead') is not None and sim.now > st['dead'] + 0.6):
                        return          # the application stops submitting once the link has failed
                    d = t0 + o[2] - sim.now
                    if d > 0:
                        P.sim_sleep(d)
                    pk = CRTPPacket()
                    port = o[3] if not (o[3] == 15 and o[4] == 3) else 14
                    pk.set_header(port, o[4])
                    pk.data = mk_payload('up', ui, o[5])
                    ok = drv.send_packet(pk)
                    if ok:
                        accepted.append((sim.now, bytes([pk.header]) + bytes(pk.data)))
                        ctx.obs('accepted', ui)
            t = P.SimThread(target=sender, name='app-%d' % ti)
            t.daemon = True
            t.start()
            threads.append(t)

        def receiver():
            while not st.get('stop_rx'):
                pk = drv.receive_packet(ctx.work.choice([0, 0.01, 0.05, -1]) if not st.get('closing') else 0.01)
                if pk is None:
                    if st.get('closing'):
                        P.sim_sleep(0.005)
                    continue
                if pk.port == 15 and pk.channel == 3:
                    continue          # empty / RSSI ack
                received.append((sim.now, bytes([pk.header]) + bytes(pk.data)))
                ctx.obs('received', len(received))
        rx = P.SimThread(target=receiver, name='receiver')
        rx.daemon = True
        rx.start()
        if kn.get('dead_at') is not None:
            # dead link: wait for the failure report (threshold x (ARC+1) x air time), not for blocked senders
            common.wait_until(sim, lambda: bool(errors), kn['dead_at'] + kn['retries'] * (kn['arc'] + 1) * air.airtime * 2
                              + 0.5, 0.01)
            P.sim_sleep(0.1)
        else:
            for t in threads:
                t.join(6.0)
            P.sim_sleep(0.35)
        # fault-free drain (clause 3): 5 simulated seconds after the last fault
        if not st.get('dead') and not errors:
            air.forced = None
            ctx.faults.rates = {}
            if ctx.faults.explicit is not None:
                ctx.faults.explicit = {}
            st['drain_from'] = sim.now
            want_up = len(accepted)
            want_down = len(downs)
            common.wait_until(sim, lambda: len(peer.rx) >= want_up and len(received) >= want_down and
                              drv.out_queue.empty(), 5.0, 0.002)
            st['drained'] = sim.now
        else:
            P.sim_sleep(0.2)
        st['closing'] = True
        # unblock a receiver waiting for ever
        st['stop_rx'] = True
        ok, _, exc = ctx.bounded(drv.close, 30.0, 'driver.close')
        if not ok:
            ctx.violation('6', 'close-hang', 'RadioDriver.close() did not return', ctx.stack_of('bounded:driver.close'))
        P.sim_sleep(0.2)

    # directed outcome prefixes start after the (up to 10) negotiation exchanges: switch when the
    # first non-negotiation frame is transmitted
    orig_outcome = air.outcome

    def outcome():
        if st.get('forced') is not None and dongle.results and not st.get('forced_on'):
            # negotiation finished when the driver thread has safelink or gave up: the next frames are data frames
            probe = bytes([0xFF, 0x05, 0x01])
            if any(r[3] == probe and r[1] and bytes(r[4]) == probe for r in dongle.results) or len(dongle.results) >= 10:
                air.forced = st['forced']
                st['forced_on'] = True
        return orig_outcome()
    air.outcome = outcome

    verdict = sim.run(scenario)
    if verdict[0] in ('deadlock', 'timeout', 'livelock'):
        from simkit.harness import hang_signature
        sg, msg = hang_signature(verdict)
        ctx.violation('6', sg, msg, verdict[1])
    for name, exc, tb in sim.thread_deaths:
        ctx.violation('6', 'thread-died %s @%s' % (exc.split(':')[0], cflib_site(tb)),
                      'library thread %s died: %s' % (name, exc), tb)
    oracle(ctx, plan, dongle, peer, st, errors, accepted, received, downs, order)


def oracle(ctx, plan, dongle, peer, st, errors, accepted, received, downs, order):
    kn = ctx.knobs
    drv = st.get('drv')
    results = dongle.results
    # which transfers are negotiation probes
    nego = [r for r in results if r[3][:3] == bytes([0xFF, 0x05, 0x01]) and len(r[3]) == 3]
    echoed = any(r[1] and bytes(r[4]) == bytes([0xFF, 0x05, 0x01]) for r in nego[:10])
    has_safelink = echoed
    if len(nego) > 10:
        ctx.violation('5', 'more-than-10-negotiation-attempts', '%d probes' % len(nego))
    # clause 5: safelink used only if confirmed
    data_frames = [r for r in results if r not in nego]
    touched = any((r[3][0] & 0x0C) != 0x0C for r in data_frames if len(r[3]) >= 1)
    if not echoed and touched:
        ctx.violation('5', 'safelink-bits-without-confirmation', 'header bits 2-3 were modified although no probe was echoed')
    if echoed and data_frames and not touched and len(data_frames) > 3:
        ctx.violation('5', 'safelink-confirmed-but-unused', 'probe echoed but no frame carries sequence bits')
    if drv is not None and results:
        nr = st['needs_resending'] if 'needs_resending' in st else getattr(drv, 'needs_resending', None)
        if nr is not None and nr != (not echoed) and len(nego) >= 1 and (echoed or len(nego) >= 10):
            ctx.violation('5', 'needs_resending-wrong', 'needs_resending=%r although safelink %s' % (nr, 'confirmed' if echoed
                                                                                               else 'not confirmed'))
    if echoed:
        ctx.probe('safelink negotiated')
    else:
        ctx.probe('no safelink')
    # clause 4: link error exactly at N consecutive unacknowledged transfers (main loop only)
    n = kn['retries']
    expect_err = []
    got_err = [e[2] for e in errors if 'Too many packets lost' in e[1]]
    run = 0
    first_data = len(nego) if not echoed else results.index(nego[[bytes(r[4]) == bytes([0xFF, 5, 1]) and r[1]
                                                                 for r in nego].index(True)]) + 1
    for i, r in enumerate(results):
        if i < first_data and r in nego:
            continue
        if r[1] is None:
            continue                 # USB read error: the driver saw no result for this transfer
        if r[1]:
            run = 0
        else:
            run += 1
            if run == n:
                expect_err.append(i + 1)
    got_err = [e[2] for e in errors if 'Too many packets lost' in e[1]]
    other_err = [e for e in errors if 'Too many packets lost' not in e[1]]
    dead = bool(st.get('dead'))
    if other_err and not (dead or expect_err or got_err):
        ctx.violation('4', 'unexpected-link-error', 'link error %r although the link did not fail'
                      % (other_err[0][1][:80],))
    if len(got_err) != len(expect_err) or any(abs(a - b) > 0 for a, b in zip(got_err, expect_err)):
        # the callback runs right after transfer index i (before the next one starts)
        ctx.violation('4', 'link-error-threshold', 'configured %d retries: link error expected after transfers %r, '
                      'reported after %r (of %d transfers)' % (n, expect_err[:5], got_err[:5], len(results)))
    if expect_err:
        ctx.probe('link failure threshold reached')
    failed = bool(expect_err) or bool(st.get('dead'))
    if not has_safelink:
        return
    # clause 1: what the firmware accepted == what send_packet accepted (prefix during faults, equality after drain)
    got = [bytes([f[1][0] | 0x0C]) + f[1][1:] for f in peer.rx]
    acc_n = [bytes([a[0] | 0x0C]) + a[1:] for a in order]
    if len(order) != len(accepted) and not failed and 'drained' in st:
        ctx.violation('1', 'accepted-count-differs', 'send_packet returned True %d times, %d packets entered the out queue'
                      % (len(accepted), len(order)))
    if got != acc_n[:len(got)]:
        dup = [g for g in got if got.count(g) > 1]
        ctx.violation('1', 'uplink-duplicated' if dup else 'uplink-lost-or-reordered',
                      'Crazyflie accepted %d packets %r..., send_packet accepted %d %r...'
                      % (len(got), [g.hex() for g in got[:6]], len(acc_n), [a.hex() for a in acc_n[:6]]))
    elif not failed and 'drained' in st and len(got) != len(acc_n):
        ctx.violation('3', 'uplink-not-delivered-after-faults-stopped', '%d of %d accepted packets reached the Crazyflie '
                      'within 5 s of a clean channel' % (len(got), len(acc_n)))
    # clause 2: downlink
    taken = [bytes([t[1][0] | 0x0C]) + t[1][1:] for t in peer.tx_taken]
    rec = [bytes([r[1][0] | 0x0C]) + r[1][1:] for r in received]
    if rec != taken[:len(rec)]:
        dup = [g for g in rec if rec.count(g) > 1]
        ctx.violation('2', 'downlink-duplicated' if dup else 'downlink-lost-or-reordered',
                      'receive_packet returned %d packets %r..., the Crazyflie sent %d %r...'
                      % (len(rec), [g.hex() for g in rec[:6]], len(taken), [t.hex() for t in taken[:6]]))
    elif not failed and 'drained' in st and (len(rec) != len(taken) or len(taken) != len(downs)):
        ctx.violation('3', 'downlink-not-delivered-after-faults-stopped', '%d queued, %d sent by the Crazyflie, %d '
                      'received within 5 s of a clean channel' % (len(downs), len(taken), len(rec)))
