"""
C05 — log blocks are created as configured and log data decodes to device values.

Real: Log, LogConfig, LogVariable, LogTocElement, SyncLogger, dispatcher.  Stub: SimLink (lossless FIFO) and
SimCF log subsystem (block table, firmware validation, acks, virtual-time sampling with its own encoder).
"""
import random
import struct

from simkit import primitives as P
from simkit.harness import H, cflib_site
from world import gen as wgen
from world.simcf import LOG_TYPES
from . import common

ID = 'C05'
BUDGET = {'quick': 50, 'thorough': 900}
MINIMISE_OPS = True

EVIDENCE = {
    'rule': 'Each run connects to a firmware with 1-40 log variables of all fetch types and replays a history of '
            'add / start / stop / delete / sleep / reconnect / re-add / SyncLogger operations on up to 6 configurations '
            '(0-26 variables, typed and default-typed, TOC and raw-memory variables, unknown names, payloads 24-28 bytes, '
            'periods around 10 ms and 2.54 s); the firmware model samples on virtual timers and encodes extremes.',
    'directed': 'payload sizes 24..28 bytes x create/append split positions (9..12 variables of 1-4 bytes); periods '
                '{0, 5, 9, 10, 20, 2540, 2550, 2560, 5000} ms; legacy protocol with 13..26 variables (append message needed '
                'from 15 on)',
    'real': ['Log', 'LogConfig', 'LogVariable', 'LogTocElement', 'SyncLogger', 'Toc', '_IncomingPacketHandler'],
    'stub': ['SimLink (FIFO; START acknowledgements lost with rate 0.3/0.6 in 18 % of the runs)', 'SimCF log service (create/append v1+v2, start/stop/delete/reset, sampling)'],
    'assumptions': [
        'periods that are multiples of 10 ms in [10, 2540] must be accepted, periods < 10 ms or >= 2550 ms rejected; '
        'periods in between are not judged',
        'type byte of a block entry: low nibble fetch type, high nibble stored type (the fetch type when none is given), '
        'as the library documents it; the firmware model ignores the high nibble for table variables',
        'the raw-memory variable entry layout of the current protocol cannot be confirmed offline: for such configurations '
        'the oracle only demands that creation messages are produced',
        'configurations stay within the library\'s global limits (16 blocks, 128 variables)',
        'the only loss injected is that of START acknowledgements on links that need resending (the block then runs and '
        'sends data before the library has seen the acknowledgement of its retransmitted START)',
        'completeness: a data packet handed to the library must reach the data callback if the added callback of that '
        'block had fired before and neither delete() nor a tear-down of the link began within 50 ms (650 ms with stalls) '
        'after the hand-over',
    ],
}

SIZES = {1: 1, 2: 2, 3: 4, 4: 1, 5: 2, 6: 4, 7: 4, 8: 2}
NAMES = {k: v[0] for k, v in LOG_TYPES.items()}


def gen_cfg(rng, dev, ci, high=False):
    logs = dev['log']
    if high and len(logs) > 250:
        # variables around and beyond the 8-bit index boundary
        logs = logs[250:262] + logs[-3:] + logs[:2]
    target = rng.choice([0, 1, 3, 8, 24, 25, 26, 26, 27, 28, 14])
    vars_ = []
    size = 0
    tries = 0
    while size < target and len(vars_) < 26 and tries < 200:
        tries += 1
        g, n, t = rng.choice(logs)
        if rng.random() < 0.5:
            fetch = None
            sz = SIZES[t]
        else:
            ft = rng.choice(sorted(SIZES))
            fetch = NAMES[ft]
            sz = SIZES[ft]
        if size + sz > target:
            continue
        vars_.append(['toc', '%s.%s' % (g, n), fetch])
        size += sz
    kind = 'ok'
    r = rng.random()
    if r < 0.08 and vars_:
        vars_[rng.randrange(len(vars_))][1] = 'nosuch.variable'
        kind = 'unknown-var'
    elif r < 0.14:
        vars_.append(['mem', 'raw%d' % ci, rng.choice(['uint8_t', 'float']), 'uint32_t', rng.randrange(1 << 32)])
        kind = 'raw-mem'
    # duplicate names in one config make the decoded dict ambiguous: keep names unique
    seen = set()
    uniq = []
    for v in vars_:
        if v[1] in seen and v[1] != 'nosuch.variable':
            continue
        seen.add(v[1])
        uniq.append(v)
    period = rng.choice([10, 10, 20, 50, 100, 500, 2540, 2540, 9, 5, 0, 2550, 2560, 4000, 30, 1000])
    return {'name': 'cfg%d' % ci, 'period': period, 'vars': uniq, 'kind': kind}


def gen(seed):
    rng = random.Random(H(seed, 'plan'))
    knobs = common.sched_knobs(rng)
    knobs['needs_resending'] = rng.random() < 0.3
    knobs['lat'] = rng.choice([(0.0005, 0.003), (0.0, 0.0), (0.002, 0.01)])
    if knobs['needs_resending'] and rng.random() < 0.6:
        # acknowledgements of START commands get lost: the block runs and sends data while the library still waits for the
        # acknowledgement of its retransmitted START (0.2 s later)
        knobs['rates'] = {'down_loss': rng.choice([0.3, 0.6])}
        knobs['lose_start_acks'] = True
    version = rng.choice([10, 10, 10, 5, 3])
    big = version >= 4 and rng.random() < 0.08
    dev = wgen.gen_device(rng, n_log=rng.choice([254, 255, 256, 257, 300, 520]) if big else rng.choice([1, 3, 8, 20, 40]),
                          n_param=1, version=version, mems=[])
    if big and knobs.get('pct'):
        for k_ in ('pct', 'pct_horizon'):
            knobs.pop(k_, None)
        knobs['line_mean'] = 40
    ncfg = rng.choice([1, 2, 3, 6])
    cfgs = [gen_cfg(rng, dev, ci, high=big) for ci in range(ncfg)]
    ops = []
    for _ in range(rng.choice([2, 4, 8, 14])):
        ci = rng.randrange(ncfg)
        k = rng.choice(['add', 'add', 'start', 'start', 'stop', 'delete', 'sleep', 'sleep', 'reconnect', 'synclog'])
        if k == 'sleep':
            ops.append(['sleep', rng.choice([0.02, 0.1, 0.35, 3.0])])
        elif k == 'reconnect':
            ops.append(['reconnect', rng.choice(['close', 'drop']), rng.random() < 0.3])
        elif k == 'synclog':
            ops.append(['synclog', ci, rng.choice([1, 3, 10]), rng.choice(['break', 'close', 'drop'])])
        else:
            ops.append([k, ci])
    return {'seed': seed, 'scenario': 'log-history', 'knobs': knobs, 'device': dev, 'cfgs': cfgs, 'ops': ops}


def directed(tier):
    plans = []
    rng = random.Random(505)
    logs = [['g', 'u8_%d' % i, 1] for i in range(14)] + [['g', 'u16_%d' % i, 2] for i in range(6)] + \
           [['g', 'f_%d' % i, 7] for i in range(7)]
    dev = {'version': 10, 'legacy_source': False, 'log': logs, 'param': [['p', 'x', 8, 1, False, False, False, 0, None]],
           'mems': [], 'log_crc': None, 'param_crc': None, 'value_seed': 7}
    n = 0
    # payload boundary x packet split: k one-byte variables + floats
    for nbytes in ((24, 25, 26, 27, 28) if tier == 'quick' else range(14, 31)):
        for nfloat in ((0, 3, 6) if tier == 'quick' else range(0, 7)):
            nb = nbytes - 4 * nfloat
            if nb < 0 or nb > 14:
                continue
            vars_ = [['toc', 'g.u8_%d' % i, None] for i in range(nb)] + [['toc', 'g.f_%d' % i, 'float'] for i in range(nfloat)]
            n += 1
            plans.append({'seed': 960000 + n, 'scenario': 'directed-payload-%d' % nbytes, 'device': dev,
                          'cfgs': [{'name': 'c', 'period': 10, 'vars': vars_, 'kind': 'ok'}],
                          'ops': [['add', 0], ['start', 0], ['sleep', 0.1], ['stop', 0], ['delete', 0]],
                          'knobs': {'line_mean': 0, 'p_stall': 0.0, 'needs_resending': False, 'lat': (0.001, 0.001)}})
    biglogs = [['b', 'v%d' % i, 2] for i in range(300)]
    bigdev = dict(dev, log=biglogs)
    for idxs in ([254, 255, 256, 257], [299], [0, 255, 1, 256, 2, 299], list(range(250, 263))):
        n += 1
        plans.append({'seed': 960000 + n, 'scenario': 'directed-high-index', 'device': bigdev,
                      'cfgs': [{'name': 'c', 'period': 10, 'vars': [['toc', 'b.v%d' % i, None] for i in idxs], 'kind': 'ok'}],
                      'ops': [['add', 0], ['start', 0], ['sleep', 0.1], ['stop', 0], ['delete', 0]],
                      'knobs': {'line_mean': 0, 'p_stall': 0.0, 'needs_resending': False, 'lat': (0.001, 0.001)}})
    # legacy protocol generation: two bytes per variable, so more than 14 variables need an append message too
    legdev = dict(dev, version=3)
    for nb in ((13, 14, 15, 26) if tier == 'quick' else range(10, 27)):
        n += 1
        vars_ = [['toc', 'g.u8_%d' % (i % 14), None] for i in range(min(nb, 14))] + \
                [['toc', 'g.u16_%d' % i, 'uint8_t'] for i in range(min(max(nb - 14, 0), 6))] + \
                [['toc', 'g.f_%d' % i, 'uint8_t'] for i in range(max(nb - 20, 0))]
        plans.append({'seed': 960000 + n, 'scenario': 'directed-legacy-%d-variables' % nb, 'device': legdev,
                      'cfgs': [{'name': 'c', 'period': 10, 'vars': vars_, 'kind': 'ok'}],
                      'ops': [['add', 0], ['start', 0], ['sleep', 0.1], ['stop', 0], ['delete', 0]],
                      'knobs': {'line_mean': 0, 'p_stall': 0.0, 'needs_resending': False, 'lat': (0.001, 0.001)}})
    # a configuration that is rejected because a default-typed variable in the middle of its list is missing, then added
    # again after the Crazyflie came back with a firmware that has it
    for pos in (0, 1, 2):
        for how in ('close', 'drop'):
            n += 1
            names = ['g.u8_0', 'g.u16_1', 'g.f_2']
            names.insert(pos, 'nosuch.variable')
            plans.append({'seed': 960000 + n, 'scenario': 'directed-readd-after-upgrade', 'device': dev,
                          'cfgs': [{'name': 'c', 'period': 20, 'vars': [['toc', nm, None] for nm in names], 'kind': 'missing'}],
                          'ops': [['add', 0], ['reconnect', how, True], ['add', 0], ['start', 0], ['sleep', 0.1], ['stop', 0]],
                          'knobs': {'line_mean': 0, 'p_stall': 0.0, 'needs_resending': False, 'lat': (0.001, 0.001)}})
    for period in (0, 5, 9, 10, 20, 2540, 2550, 2560, 5000):
        n += 1
        plans.append({'seed': 960000 + n, 'scenario': 'directed-period-%d' % period, 'device': dev,
                      'cfgs': [{'name': 'c', 'period': period, 'vars': [['toc', 'g.f_0', None]], 'kind': 'ok'}],
                      'ops': [['add', 0], ['start', 0], ['sleep', 3.0], ['stop', 0]],
                      'knobs': {'line_mean': 0, 'p_stall': 0.0, 'needs_resending': False, 'lat': (0.001, 0.001)}})
    return plans


def expect_accept(cfg, devlog):
    """True / False / None (not judged)."""
    names = {'%s.%s' % (g, n): t for g, n, t in devlog}
    size = 0
    for v in cfg['vars']:
        if v[0] == 'toc':
            if v[1] not in names:
                return False
            t = names[v[1]] if v[2] is None else [k for k, nm in NAMES.items() if nm == v[2]][0]
            size += SIZES[t]
        else:
            size += SIZES[[k for k, nm in NAMES.items() if nm == v[2]][0]]
    if size > 26:
        return False
    p = cfg['period']
    if p < 10 or p >= 2550:
        return False
    if p % 10 == 0 and 10 <= p <= 2540:
        return True
    return None


def execute(ctx):
    from cflib.crazyflie import Crazyflie
    from cflib.crazyflie.log import LogConfig
    from cflib.crazyflie.syncLogger import SyncLogger
    plan = ctx.plan
    sim = ctx.sim
    w, devs = common.make_world(ctx, {'cf': plan['device']})
    w.can_inject = True
    delivered = []      # (t, bid, ts) of log data packets handed to the library
    teardowns = []      # times at which close_link / the link error handler were entered

    def on_down(link, header, data):
        if header & 0xF3 == 0x52 and len(data) >= 4:
            delivered.append((sim.now, data[0], data[1] | (data[2] << 8) | (data[3] << 16)))
    w.on_down_delivered = on_down
    if ctx.knobs.get('lose_start_acks'):
        w.lossy = lambda direction, header, data: (direction == 'down' and header & 0xF3 == 0x51 and len(data) >= 1 and
                                                   data[0] == 3)
    else:
        w.lossy = lambda direction, header, data: False
    dev = devs['cf']
    ctx.notes['nontrivial'] = plan['scenario'].startswith('directed')
    devlog = plan['device']['log']
    idx_of = {'%s.%s' % (g, n): i for i, (g, n, t) in enumerate(devlog)}
    type_of = {'%s.%s' % (g, n): t for g, n, t in devlog}
    st = {'session': 0}
    cfgs = []          # dicts: plan, obj, accepted, data (list of (ts, data dict)), flags events
    got = {}

    def mkcfg(pc):
        lc = LogConfig(pc['name'], pc['period'])
        for v in pc['vars']:
            if v[0] == 'toc':
                lc.add_variable(v[1], v[2])
            else:
                lc.add_memory(v[1], v[2], v[3], v[4])
        c = {'plan': pc, 'obj': lc, 'accepted': None, 'data': [], 'added_ev': [], 'started_ev': [], 'errors': [],
             'added_session': None, 'vars_at_first_add': None, 'known': [], 'delete_calls': []}
        lc.added_cb.add_callback(lambda *a, c=c: c['known'].append((sim.now, lc.id)) if (a and a[-1]) else None)
        orig_delete = lc.delete

        def delete(c=c):
            c['delete_calls'].append(sim.now)
            return orig_delete()
        lc.delete = delete
        lc.data_received_cb.add_callback(lambda ts, data, lcf, c=c: c['data'].append((ts, dict(data), st['session'], lcf.id)))
        lc.added_cb.add_callback(lambda *a, c=c: c['added_ev'].append((sim.now, a[-1] if a else None)))
        lc.started_cb.add_callback(lambda *a, c=c: c['started_ev'].append((sim.now, a[-1] if a else None)))
        lc.error_cb.add_callback(lambda *a, c=c: c['errors'].append(a[-1]))
        return c

    def connect(cf):
        got.pop('full', None)
        cf.open_link('sim://cf')
        if not common.wait_until(sim, lambda: 'full' in got, 120.0, 0.01):
            ctx.violation('0', 'never-fully-connected', 'handshake did not finish')
            return False
        return True

    def settle(t=0.08):
        P.sim_sleep(t)
        if ctx.knobs.get('lose_start_acks'):
            # quiescence: no request is waiting for a (retransmitted) acknowledgement any more
            cf = st.get('cf')
            if cf is not None:
                common.wait_until(sim, lambda: not cf._answer_patterns, 20.0, 0.01)
                P.sim_sleep(0.05)

    def scenario():
        cf = Crazyflie()
        st['cf'] = cf
        for meth in ('close_link', '_link_error_cb'):
            def wrap(orig):
                def f(*a, **k):
                    teardowns.append(sim.now)
                    return orig(*a, **k)
                return f
            setattr(cf, meth, wrap(getattr(cf, meth)))
        cf.fully_connected.add_callback(lambda uri: got.__setitem__('full', 1))
        if not connect(cf):
            return
        for pc in plan['cfgs']:
            cfgs.append(mkcfg(pc))
        for op in plan['ops']:
            if ctx.violations and ctx.violations[-1]['clause'] in ('0', '6h'):
                break
            k = op[0]
            if k == 'sleep':
                P.sim_sleep(op[1])
            elif k == 'add':
                if cfgs[op[1]]['added_session'] != st['session']:
                    do_add(ctx, cf, dev, cfgs[op[1]], devlog, st)
                    settle()
            elif k == 'start':
                c = cfgs[op[1]]
                if c['accepted'] and c['added_session'] == st['session']:
                    n0 = len(dev.log_cmds)
                    try:
                        c['obj'].start()
                    except Exception as e:
                        if c['plan']['kind'] == 'raw-mem':
                            ctx.violation('2', 'raw-memory-variable-start-raised %s' % type(e).__name__,
                                          'start() of an accepted configuration with a raw-memory variable raised %r; '
                                          'nothing was sent' % (e,))
                        else:
                            ctx.violation('2', 'start-raised %s' % type(e).__name__, 'start() raised %r' % (e,))
                        continue
                    settle(0.15)
                    check_create(ctx, dev, c, n0, idx_of, type_of, st)
                    check_flags(ctx, dev, c, 'start')
            elif k == 'stop':
                c = cfgs[op[1]]
                if c['accepted'] and c['added_session'] == st['session']:
                    c['obj'].stop()
                    settle(0.15)
                    check_flags(ctx, dev, c, 'stop')
            elif k == 'delete':
                c = cfgs[op[1]]
                if c['accepted'] and c['added_session'] == st['session']:
                    c['obj'].delete()
                    settle(0.15)
                    check_flags(ctx, dev, c, 'delete')
            elif k == 'reconnect':
                if op[1] == 'close':
                    cf.close_link()
                else:
                    cf.link.inject_failure('driver')
                    common.wait_until(sim, lambda: cf.link is None, 30.0, 0.005)
                settle(0.3)
                st['session'] += 1
                ctx.probe('reconnect')
                if len(op) > 2 and op[2] and not st.get('upgraded'):
                    # the Crazyflie comes back with a newer firmware that has the variable that was missing
                    from world.simcf import LogVar
                    dev.log_toc.append(LogVar('nosuch', 'variable', 3))
                    dev.log_crc = (dev.log_crc + 1) & 0xFFFFFFFF
                    devlog.append(['nosuch', 'variable', 3])
                    idx_of['nosuch.variable'] = len(dev.log_toc) - 1
                    type_of['nosuch.variable'] = 3
                    st['upgraded'] = True
                    ctx.probe('firmware upgraded between connections')
                if not connect(cf):
                    return
            elif k == 'synclog':
                c = cfgs[op[1]]
                run_synclog(ctx, cf, dev, c, op[2], op[3], devlog, st, SyncLogger, connect)
                if cf.link is None:
                    st['session'] += 1
                    if not connect(cf):
                        return
        settle(0.3)
        check_data(ctx, dev, cfgs, type_of)
        check_complete(ctx, cfgs, delivered, teardowns, sim.now)
        cf.close_link()
        settle(0.2)

    verdict = sim.run(scenario)
    if verdict[0] in ('deadlock', 'timeout', 'livelock'):
        from simkit.harness import hang_signature
        sg, msg = hang_signature(verdict)
        ctx.violation('6h', sg, msg, verdict[1])
    for name, exc, tb in sim.thread_deaths:
        ctx.violation('0', 'thread-died %s @%s' % (exc.split(':')[0], cflib_site(tb)),
                      'library thread %s died: %s' % (name, exc), tb)
    if dev.protocol_errors:
        ctx.violation('2', 'protocol-error %s' % (dev.protocol_errors[0][0],), 'device saw %s' % dev.protocol_errors[:3])


def var_sig(lc):
    return [(v.name, v.fetch_as, v.stored_as, v.type, v.address) for v in lc.variables]


def do_add(ctx, cf, dev, c, devlog, st):
    pc = c['plan']
    lc = c['obj']
    exp = expect_accept(pc, devlog)
    n0 = len(dev.rx)
    before = var_sig(lc)
    exc = None
    try:
        cf.log.add_config(lc)
    except Exception as e:
        exc = e
    P.sim_sleep(0.02)
    # (create / append messages: a START seen in this window can be the retransmission of an earlier block's START whose
    # acknowledgement was lost)
    sent = [r for r in dev.rx[n0:] if r[2] == 5 and r[3] == 1 and r[4][:1] in (b'\x00', b'\x01', b'\x06', b'\x07')]
    if exc is not None:
        if exp is True:
            ctx.violation('1', 'valid-config-rejected %s' % type(exc).__name__,
                          'add_config rejected %r with %r' % (pc, exc))
        if sent:
            ctx.violation('1', 'sent-for-rejected-config', 'packets %r were sent for a rejected configuration' % (sent[:2],))
        c['accepted'] = False
        return
    if exp is False:
        ctx.violation('1', 'invalid-config-accepted (%s)' % (pc['kind'] if pc['kind'] != 'ok' else
                                                             'period' if (pc['period'] < 10 or pc['period'] >= 2550)
                                                             else 'size'),
                      'add_config accepted %r' % (pc,))
    c['accepted'] = True
    c['added_session'] = st['session']
    c.setdefault('ids', {})[st['session']] = lc.id
    want = sorted(v[1] for v in pc['vars'])
    have = sorted(v.name for v in lc.variables)
    if want != have:
        ctx.violation('5', 'variable-list-differs-from-configuration', 'configured %r, the accepted configuration holds %r'
                      % (want[:10], have[:10]))
    # clause 5: re-adding (e.g. after a reconnect) does not change the variable list
    after = var_sig(lc)
    if c['vars_at_first_add'] is None:
        c['vars_at_first_add'] = after
    elif after != c['vars_at_first_add']:
        ctx.violation('5', 'variable-list-changed-on-re-add', 'variables after the first add_config: %d, after this one: %d '
                      '(%r)' % (len(c['vars_at_first_add']), len(after), [v[0] for v in after][:8]))
        c['vars_at_first_add'] = after
    ctx.obs('add', pc['name'], len(after))


def check_create(ctx, dev, c, n0, idx_of, type_of, st):
    """Clause 2: the create/append messages enumerate exactly the variables, in order."""
    lc = c['obj']
    bid = lc.id
    cmds = [x for x in dev.log_cmds[n0:] if x[2] in (0, 1, 6, 7) and x[3] == bid]
    if not cmds:
        # already added earlier in this session: start only
        return
    v2 = dev.v2
    ents = []
    seen_raw = set()
    for (t, sess, cmd, b, raw, status) in cmds:
        if raw in seen_raw:
            continue                # retransmission
        seen_raw.add(raw)
        if len(raw) > 30:
            ctx.violation('2', 'creation-message-too-long', '%d bytes' % len(raw))
        if v2 != (cmd in (6, 7)):
            ctx.violation('2', 'wrong-protocol-generation', 'cmd %d to a %s device' % (cmd, 'v2' if v2 else 'v1'))
        body = raw[2:]
        esz = 3 if v2 else 2
        if len(body) % esz:
            ctx.probe('creation message with a trailing partial entry (ignored by the firmware parser)')
        for i in range(len(body) // esz):
            e = body[i * esz:(i + 1) * esz]
            ents.append((e[0], e[1] | (e[2] << 8) if v2 else e[1]))
    if cmds[0][2] not in (0, 6):
        ctx.violation('2', 'first-message-not-create', 'cmd %d' % cmds[0][2])
    if c['plan']['kind'] == 'raw-mem':
        return
    exp = []
    for v in lc.variables:
        exp.append((v.fetch_as | (v.stored_as << 4), idx_of.get(v.name)))
    if ents != exp:
        ctx.violation('2', 'creation-messages-differ', 'configuration %s: expected entries %r, messages carry %r'
                      % (c['plan']['name'], exp[:30], ents[:30]))
    ctx.obs('create', c['plan']['name'], len(ents))


def check_flags(ctx, dev, c, after):
    """Clause 4: added/started follow the device's acknowledgements (judged at quiescence)."""
    lc = c['obj']
    blk = dev.blocks.get(lc.id)
    dev_added = blk is not None
    dev_started = bool(blk and blk.running)
    if c['plan']['kind'] == 'raw-mem':
        return
    if lc.added != dev_added or lc.started != dev_started:
        ctx.violation('4', 'flags-differ-after-%s' % after, 'configuration %s: library added=%r started=%r, device '
                      'added=%r started=%r' % (c['plan']['name'], lc.added, lc.started, dev_added, dev_started))
    if c['added_ev'] and c['added_ev'][-1][1] not in (lc.added, None) and isinstance(c['added_ev'][-1][1], bool):
        ctx.violation('4', 'added_cb-last-value-differs', '%r vs flag %r' % (c['added_ev'][-1], lc.added))
    if c['started_ev'] and isinstance(c['started_ev'][-1][1], bool) and c['started_ev'][-1][1] != lc.started:
        ctx.violation('4', 'started_cb-last-value-differs', '%r vs flag %r' % (c['started_ev'][-1], lc.started))


def enc(ft, val):
    return struct.pack(LOG_TYPES[ft][1], val)


def check_data(ctx, dev, cfgs, type_of):
    """Clause 3: every data packet decodes to the device's timestamp and values, bit for bit."""
    by_id_session = {}
    for (t, sess, bid, ts, vals, payload) in dev.log_sent:
        by_id_session.setdefault(bid, []).append((ts, vals))
    nsamples = 0
    for c in cfgs:
        lc = c['obj']
        if not c['accepted'] or c['plan']['kind'] == 'raw-mem':
            continue
        # samples the library decoded for this config, per session, in order
        per_sess = {}
        for (ts, data, sess, bid) in c['data']:
            per_sess.setdefault(bid, []).append((ts, data))
        for bid, lst in per_sess.items():
            # (block ids are not reused: the library's id counter keeps counting across connections)
            sent = by_id_session.get(bid, [])
            # the library must have decoded a prefix-free subsequence: exactly the samples delivered, in order
            j = 0
            for (ts, data) in lst:
                nsamples += 1
                # find the matching device sample
                while j < len(sent) and sent[j][0] != ts:
                    j += 1
                if j >= len(sent):
                    ctx.violation('3', 'decoded-sample-not-sent', 'configuration %s decoded timestamp %d which the device '
                                  'never sent for block %d' % (c['plan']['name'], ts, bid))
                    return
                vals = sent[j][1]
                j += 1
                names = [v.name for v in lc.variables]
                if len(vals) != len(names):
                    continue     # block layout changed (re-created with another variable list)
                for v, val in zip(lc.variables, vals):
                    gotv = data.get(v.name)
                    try:
                        same = enc(v.fetch_as, gotv) == enc(v.fetch_as, val)
                    except Exception:
                        same = False
                    if not same:
                        ctx.violation('3', 'decoded-value-differs', 'configuration %s variable %s (%s): device encoded %r, '
                                      'library decoded %r' % (c['plan']['name'], v.name, NAMES[v.fetch_as], val, gotv))
                        return
    if nsamples:
        ctx.probe('log samples decoded', nsamples)


def check_complete(ctx, cfgs, delivered, teardowns, t_end):
    """Clause 3, completeness: every data packet handed to the library while the block was known to it (its added
    callback had fired with True, neither delete() nor a tear-down of the link had begun) is decoded and passed on."""
    margin = 0.05 + (0.6 if ctx.knobs.get('p_stall') else 0.0)
    for c in cfgs:
        if not c['accepted'] or c['plan']['kind'] == 'raw-mem':
            continue
        decoded = {}
        for (ts, data, sess, bid) in c['data']:
            decoded.setdefault(bid, set()).add(ts)
        for (t0, bid) in c['known']:
            ends = [t for t in teardowns if t >= t0] + [t for t in c['delete_calls'] if t >= t0] + [t_end]
            t1 = min(ends) - margin
            missing = [(t, ts) for (t, b, ts) in delivered if b == bid and t0 <= t <= t1 and ts not in decoded.get(bid, ())]
            if missing:
                ctx.violation('3', 'data-packet-not-decoded', 'configuration %s (block %d, known to the library since %.4f): '
                              '%d data packets were handed to the library and never reached the data callback, first at '
                              '%.4f with timestamp %d' % (c['plan']['name'], bid, t0, len(missing), missing[0][0],
                                                           missing[0][1]))
                return
    ctx.probe('data packets checked for completeness', len(delivered))


def run_synclog(ctx, cf, dev, c, nwant, end, devlog, st, SyncLogger, connect):
    """Clause 6: SyncLogger yields each decoded sample once, in order, ending at disconnect."""
    sim = ctx.sim
    pc = c['plan']
    if expect_accept(pc, devlog) is not True or pc['kind'] != 'ok' or c['obj'].added or c['obj'].started:
        return
    lc = c['obj']
    delivered = []
    lc.data_received_cb.add_callback(lambda ts, data, lcf: (delivered.append((ts, dict(data))),
                                                            stamps.append(sim.now)))
    stamps = []
    yielded = []
    res = {}

    def consumer():
        try:
            with SyncLogger(cf, lc) as logger:
                res['entered'] = True
                for entry in logger:
                    yielded.append((entry[0], dict(entry[1])))
                    if end == 'break' and len(yielded) >= nwant:
                        break
            res['done'] = sim.now
        except Exception as e:
            res['exc'] = e
            res['done'] = sim.now
    t = P.SimThread(target=consumer, name='synclog-consumer')
    t.daemon = True
    n_before = len(c['vars_at_first_add'] or [])
    t.start()
    if end == 'break':
        t.join(60.0)
        if t.is_alive():
            ctx.violation('6', 'synclogger-break-hang', 'consumer did not finish after %d samples' % nwant,
                          ctx.stack_of('synclog-consumer'))
            return
    else:
        common.wait_until(sim, lambda: len(yielded) >= nwant or 'done' in res, 30.0, 0.005)
        ctx.probe('disconnect while iterating SyncLogger')
        t_disc = sim.now
        if end == 'close':
            cf.close_link()
        else:
            cf.link.inject_failure('driver')
        t.join(30.0)
        if t.is_alive():
            ctx.violation('6', 'synclogger-iteration-does-not-end', 'iteration still blocked 30 s after the %s'
                          % ('close_link' if end == 'close' else 'link failure'), ctx.stack_of('synclog-consumer'))
            return
    c['accepted'] = True
    c['added_session'] = st['session']
    c.setdefault('ids', {})[st['session']] = lc.id
    if c['vars_at_first_add'] is None:
        c['vars_at_first_add'] = var_sig(lc)
    if 'exc' in res:
        ctx.violation('6', 'synclogger-raised %s' % type(res['exc']).__name__, 'SyncLogger raised %r' % (res['exc'],))
        return
    # yielded must be a prefix of delivered (break) or all of what was delivered before the disconnect
    if yielded != delivered[:len(yielded)]:
        ctx.violation('6', 'synclogger-yield-differs', 'yielded %r..., dispatcher delivered %r...'
                      % (yielded[:3], delivered[:3]))
    elif end != 'break':
        # everything delivered before the disconnect was requested must have been yielded; a sample that is being
        # dispatched while the link is torn down may or may not make it
        before = sum(1 for t in stamps if t < t_disc - 1e-12)
        if len(yielded) < before:
            ctx.violation('6', 'synclogger-lost-samples', 'dispatcher delivered %d samples before the disconnect, iterator '
                          'yielded %d' % (before, len(yielded)))
    ctx.obs('synclog', len(yielded), len(delivered))
