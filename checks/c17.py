"""
C17 — flight helpers always end on the ground command and track motion faithfully.

Real: MotionCommander, _SetPointThread, PositionHlCommander, Commander, HighLevelCommander, Param.set_value and
the whole Crazyflie below them, connected to SimCF over SimLink.  Observation at two layers: wrappers around the
commander methods (virtual time, arguments) and SimCF's decode of the packets on the wire.
"""
import math
import random
import struct

from simkit import primitives as P
from simkit.harness import H, cflib_site
from . import common

ID = 'C17'
BUDGET = {'quick': 45, 'thorough': 900}
MINIMISE_OPS = True

EVIDENCE = {
    'rule': 'Each run connects a Crazyflie and executes one generated program of up to 12 motion primitives with a '
            'MotionCommander or a PositionHlCommander (inside a with block or with explicit take_off/land, with or without '
            'an exception raised in the body at a seeded position); the setpoint thread and the commanding thread '
            'interleave at line granularity in virtual time, sleeps overshoot by a seeded jitter.',
    'directed': 'programs whose net vertical displacement returns exactly to / below the ground (landing from height 0 or '
                'a negative height), one per direction primitive',
    'real': ['MotionCommander', '_SetPointThread', 'PositionHlCommander', 'Commander', 'HighLevelCommander',
             'Param.set_value/_ParamUpdater', 'Crazyflie, dispatcher'],
    'stub': ['SimLink', 'SimCF (decodes hover / stop / notify-stop / high-level packets with the firmware layouts)'],
    'assumptions': [
        'zero-length moves are not generated (the requested direction is undefined)',
        'timing tolerances: |v| x sleep jitter per blocking primitive; stalls are disabled in this check',
        'heights: programs may descend below the take-off level (the statement quantifies over all programs)',
    ],
}

EPS = 1e-6


def gen_mc_prims(rng, n):
    prims = []
    for _ in range(n):
        k = rng.choice(['forward', 'back', 'left', 'right', 'up', 'down', 'turn_left', 'turn_right', 'circle_left',
                        'circle_right', 'move', 'start', 'start_turn', 'start_circle', 'stop', 'wait'])
        v = rng.choice([0.1, 0.2, 0.5, 1.0])
        if k in ('forward', 'back', 'left', 'right'):
            prims.append([k, round(rng.uniform(0.05, 1.5), 3), v])
        elif k == 'up':
            prims.append([k, round(rng.uniform(0.05, 0.6), 3), v])
        elif k == 'down':
            prims.append([k, round(rng.choice([rng.uniform(0.05, 0.3), rng.uniform(0.05, 0.3), rng.uniform(0.3, 1.0)]), 3), v])
        elif k in ('turn_left', 'turn_right'):
            prims.append([k, rng.choice([10.0, 45.0, 90.0, 360.0]), rng.choice([36.0, 72.0, 180.0])])
        elif k in ('circle_left', 'circle_right'):
            prims.append([k, round(rng.uniform(0.2, 1.0), 3), v, rng.choice([90.0, 180.0, 360.0])])
        elif k == 'move':
            d = [round(rng.uniform(-1, 1), 3) for _ in range(3)]
            if all(abs(x) < 1e-3 for x in d):
                d[0] = 0.3
            prims.append(['move', d[0], d[1], d[2] * 0.3, v])
        elif k == 'start':
            prims.append(['start', rng.choice(['left', 'right', 'forward', 'back', 'up', 'down', 'linear']), v,
                          round(rng.uniform(-0.3, 0.3), 3), round(rng.uniform(-0.3, 0.3), 3),
                          round(rng.uniform(-0.2, 0.2), 3), rng.choice([0.0, 30.0])])
        elif k == 'start_turn':
            prims.append(['start_turn', rng.choice(['left', 'right']), rng.choice([36.0, 72.0])])
        elif k == 'start_circle':
            prims.append(['start_circle', rng.choice(['left', 'right']), round(rng.uniform(0.2, 1.0), 3), v])
        elif k == 'stop':
            prims.append(['stop'])
        else:
            prims.append(['wait', rng.choice([0.05, 0.2, 0.45, 1.0])])
        if rng.random() < 0.15 and len(prims) < 40:
            # a remote-control style loop: the command now in effect is re-issued at a fixed rate
            last = prims[-1]
            rep = last if last[0] in ('start', 'start_turn', 'start_circle', 'stop') else ['stop']
            for _r in range(rng.choice([1, 3, 8])):
                prims.append(['wait', rng.choice([0.05, 0.1, 0.15])])
                prims.append(list(rep))
    return prims


def gen_hl_prims(rng, n):
    prims = []
    for _ in range(n):
        k = rng.choice(['forward', 'back', 'left', 'right', 'up', 'down', 'move', 'go_to', 'go_to', 'set_v', 'set_h',
                        'set_lh'])
        v = rng.choice([None, None, 0.2, 1.0])
        if k in ('forward', 'back', 'left', 'right', 'up'):
            prims.append([k, round(rng.uniform(0.05, 1.5), 3), v])
        elif k == 'down':
            prims.append([k, round(rng.choice([rng.uniform(0.05, 0.3), rng.uniform(0.3, 1.2)]), 3), v])
        elif k == 'move':
            prims.append(['move', round(rng.uniform(-1, 1), 3), round(rng.uniform(-1, 1), 3),
                          round(rng.uniform(-0.3, 0.3), 3), v])
        elif k == 'go_to':
            prims.append(['go_to', round(rng.uniform(-2, 2), 3), round(rng.uniform(-2, 2), 3),
                          rng.choice([None, 0.0, round(rng.uniform(0.1, 1.5), 3)]), v])
        elif k == 'set_v':
            prims.append(['set_v', rng.choice([0.2, 0.5, 1.0])])
        elif k == 'set_h':
            prims.append(['set_h', rng.choice([0.3, 0.5, 1.0])])
        else:
            prims.append(['set_lh', rng.choice([0.0, 0.0, 0.2])])
    return prims


def gen(seed):
    rng = random.Random(H(seed, 'plan'))
    knobs = common.sched_knobs(rng, allow_stall=False)
    knobs['sleep_jitter'] = rng.choice([0.0, 0.0, 0.002])
    knobs['needs_resending'] = rng.random() < 0.3
    knobs['lat'] = (0.0005, 0.003)
    version = rng.choice([10, 10, 8, 5])
    which = rng.choice(['mc', 'mc', 'hl'])
    n = rng.choice([0, 1, 3, 6, 12])
    prog = {'kind': which, 'with': rng.random() < 0.7,
            'raise_at': rng.randrange(n + 1) if rng.random() < 0.3 else None}
    if which == 'mc':
        prog['default_height'] = rng.choice([0.3, 0.3, 0.5, 1.0])
        ops = gen_mc_prims(rng, n)
    else:
        prog.update({'x': rng.choice([0.0, 1.0]), 'y': rng.choice([0.0, -0.5]), 'z': rng.choice([0.0, 0.0, 0.1]),
                     'default_velocity': rng.choice([0.5, 0.2]), 'default_height': rng.choice([0.5, 1.0]),
                     'controller': rng.choice([None, 1, 2]), 'landing_height': rng.choice([0.0, 0.0, 0.1])})
        ops = gen_hl_prims(rng, n)
    scen = 'fly-' + which
    if which == 'mc' and rng.random() < 0.15:
        # long scheduling stalls (a thread that is runnable does not get the CPU for up to 0.3 s while time goes on): only
        # the clauses that do not depend on timing are judged in these runs (ends with stop + release, nothing afterwards)
        knobs.update({'p_stall': 0.3, 'stall_window': 0.3, 'line_mean': rng.choice([3, 10])})
        scen = 'fly-mc-stalled'
    return {'seed': seed, 'scenario': scen, 'knobs': knobs, 'version': version, 'prog': prog, 'ops': ops}


def directed(tier):
    plans = []
    n = 0
    base = {'line_mean': 0, 'p_stall': 0.0, 'sleep_jitter': 0.0, 'needs_resending': False, 'lat': (0.001, 0.001)}
    for prims in ([['down', 0.3, 0.2]], [['down', 0.5, 0.2]], [['up', 0.3, 0.2], ['down', 0.6, 0.2]],
                  [['move', 0.5, 0.0, -0.3, 0.2]], [['down', 0.3, 0.1], ['forward', 0.5, 0.2]], []):
        for w_ in (True, False):
            n += 1
            plans.append({'seed': 995000 + n, 'scenario': 'directed-mc-ground', 'knobs': dict(base), 'version': 10,
                          'prog': {'kind': 'mc', 'with': w_, 'raise_at': None, 'default_height': 0.3}, 'ops': prims})
    for prims in ([['down', 0.5, None]], [['down', 0.8, None]], [['set_lh', 0.2], ['down', 0.4, None]],
                  [['go_to', 0.0, 0.0, 0.05, None], ['set_lh', 0.2]], [['go_to', 1.0, 0.5, 0.0, None], ['forward', 0.5, None]],
                  [['down', 0.5, None], ['up', 0.3, None]], []):
        n += 1
        plans.append({'seed': 995000 + n, 'scenario': 'directed-hl-ground', 'knobs': dict(base), 'version': 10,
                      'prog': {'kind': 'hl', 'with': True, 'raise_at': None, 'x': 0.0, 'y': 0.0, 'z': 0.0,
                               'default_velocity': 0.5, 'default_height': 0.5, 'controller': None, 'landing_height': 0.0},
                      'ops': prims})
    # long scheduling stalls around the landing: the set-point thread is runnable but does not get the CPU while the
    # commanding thread stops it and sends the ground commands
    for v in range(24 if tier == 'quick' else 240):
        n += 1
        plans.append({'seed': 995000 + n, 'scenario': 'fly-mc-stalled', 'sched': {'alt': v},
                      'knobs': {'line_mean': [0, 3, 10][v % 3], 'p_stall': [0.5, 0.8][(v // 3) % 2], 'stall_window': 0.3,
                                'sleep_jitter': 0.0, 'needs_resending': False, 'lat': (0.001, 0.001)},
                      'version': 10,
                      'prog': {'kind': 'mc', 'with': True, 'raise_at': None, 'default_height': 0.3},
                      'ops': [['forward', 0.2, 0.2]] if v % 2 else []})
    return plans


class BodyError(Exception):
    pass


def execute(ctx):
    from cflib.crazyflie import Crazyflie
    from cflib.positioning.motion_commander import MotionCommander
    from cflib.positioning.position_hl_commander import PositionHlCommander
    plan = ctx.plan
    sim = ctx.sim
    dev_desc = {'version': plan['version'], 'legacy_source': False, 'log': [['l', 'v', 1]],
                'param': [['kalman', 'resetEstimation', 0x08, 0, False, False, False, 0, None],
                          ['stabilizer', 'controller', 0x08, 0, False, False, False, 0, None],
                          ['commander', 'enHighLevel', 0x08, 0, False, False, False, 0, None]],
                'mems': [], 'log_crc': None, 'param_crc': None, 'value_seed': 1}
    w, devs = common.make_world(ctx, {'cf': dev_desc})
    dev = devs['cf']
    ctx.notes['nontrivial'] = plan['scenario'].startswith('directed')
    prog = plan['prog']
    calls = []          # (t, name, args)  commander-level observation
    marks = []          # (t, 'begin'|'end', prim index, prim)
    res = {}
    jitter = ctx.knobs.get('sleep_jitter', 0.0)

    def wrap(obj, name):
        orig = getattr(obj, name)

        def f(*a, **k):
            calls.append((sim.now, name, tuple(a) + tuple(sorted(k.items()))))
            ctx.obs(name, len(calls))
            return orig(*a, **k)
        setattr(obj, name, f)

    def run_mc(cf):
        mc = MotionCommander(cf, default_height=prog['default_height'])

        def body():
            for i, p in enumerate(plan['ops']):
                if prog['raise_at'] == i:
                    raise BodyError('scripted failure in the body')
                marks.append((sim.now, 'begin', i, p, len(calls)))
                k = p[0]
                if k in ('forward', 'back', 'left', 'right', 'up', 'down'):
                    getattr(mc, k)(p[1], p[2])
                elif k in ('turn_left', 'turn_right'):
                    getattr(mc, k)(p[1], p[2])
                elif k in ('circle_left', 'circle_right'):
                    getattr(mc, k)(p[1], p[2], p[3])
                elif k == 'move':
                    mc.move_distance(p[1], p[2], p[3], p[4])
                elif k == 'start':
                    if p[1] == 'linear':
                        mc.start_linear_motion(p[3], p[4], p[5], p[6])
                    else:
                        getattr(mc, 'start_' + p[1])(p[2])
                elif k == 'start_turn':
                    getattr(mc, 'start_turn_' + p[1])(p[2])
                elif k == 'start_circle':
                    getattr(mc, 'start_circle_' + p[1])(p[2], p[3])
                elif k == 'stop':
                    mc.stop()
                elif k == 'wait':
                    P.sim_sleep(p[1])
                marks.append((sim.now, 'end', i, p, len(calls)))
            if prog['raise_at'] == len(plan['ops']):
                raise BodyError('scripted failure at the end of the body')
        res['t_takeoff_call'] = sim.now
        try:
            if prog['with']:
                with mc:
                    res['t_flying'] = sim.now
                    try:
                        body()
                    finally:
                        res['t_body_end'] = sim.now
            else:
                mc.take_off()
                res['t_flying'] = sim.now
                try:
                    body()
                finally:
                    res['t_body_end'] = sim.now
                    mc.land()
        except BodyError:
            res['body_error_propagated'] = True
        res['t_done'] = sim.now

    def run_hl(cf):
        pc = PositionHlCommander(cf, x=prog['x'], y=prog['y'], z=prog['z'], default_velocity=prog['default_velocity'],
                                 default_height=prog['default_height'], controller=prog['controller'],
                                 default_landing_height=prog['landing_height'])
        res['pc'] = pc

        def body():
            for i, p in enumerate(plan['ops']):
                if prog['raise_at'] == i:
                    raise BodyError('scripted failure in the body')
                marks.append((sim.now, 'begin', i, p, pc.get_position()))
                k = p[0]
                if k in ('forward', 'back', 'left', 'right', 'up', 'down'):
                    getattr(pc, k)(p[1], p[2]) if p[2] is not None else getattr(pc, k)(p[1])
                elif k == 'move':
                    pc.move_distance(p[1], p[2], p[3], p[4]) if p[4] is not None else pc.move_distance(p[1], p[2], p[3])
                elif k == 'go_to':
                    kw = {}
                    if p[3] is not None:
                        kw['z'] = p[3]
                    if p[4] is not None:
                        kw['velocity'] = p[4]
                    pc.go_to(p[1], p[2], **kw)
                elif k == 'set_v':
                    pc.set_default_velocity(p[1])
                elif k == 'set_h':
                    pc.set_default_height(p[1])
                elif k == 'set_lh':
                    pc.set_landing_height(p[1])
                marks.append((sim.now, 'end', i, p, pc.get_position()))
            if prog['raise_at'] == len(plan['ops']):
                raise BodyError('scripted failure at the end of the body')
        try:
            if prog['with']:
                with pc:
                    res['t_flying'] = sim.now
                    body()
            else:
                pc.take_off()
                res['t_flying'] = sim.now
                try:
                    body()
                finally:
                    pc.land()
        except BodyError:
            res['body_error_propagated'] = True
        res['t_done'] = sim.now

    def scenario():
        cf = Crazyflie()
        got = {}
        cf.fully_connected.add_callback(lambda uri: got.__setitem__('full', 1))
        cf.open_link('sim://cf')
        if not common.wait_until(sim, lambda: 'full' in got, 120.0, 0.01):
            ctx.violation('0', 'never-fully-connected', 'handshake did not finish')
            return
        for name in ('send_hover_setpoint', 'send_stop_setpoint', 'send_notify_setpoint_stop', 'send_setpoint',
                     'send_velocity_world_setpoint', 'send_zdistance_setpoint', 'send_position_setpoint'):
            wrap(cf.commander, name)
        for name in ('takeoff', 'land', 'go_to', 'stop'):
            wrap(cf.high_level_commander, name)
        res['sink0'] = len(dev.sink)
        runner = run_mc if prog['kind'] == 'mc' else run_hl
        ok, _, exc = ctx.bounded(lambda: runner(cf), 600.0, 'program')
        if not ok:
            ctx.violation('6', 'program-did-not-finish', 'the flight program (incl. landing) did not return within 600 s',
                          ctx.stack_of('bounded:program'))
            return
        if exc is not None:
            res['exc'] = exc
        res['t_end'] = sim.now
        P.sim_sleep(1.0)
        res['calls_at_end'] = len(calls)
        P.sim_sleep(1.0)
        cf.close_link()
        P.sim_sleep(0.2)

    verdict = sim.run(scenario)
    if verdict[0] in ('deadlock', 'timeout', 'livelock'):
        from simkit.harness import hang_signature
        sg, msg = hang_signature(verdict)
        ctx.violation('6', sg, msg, verdict[1])
    for name, exc, tb in sim.thread_deaths:
        ctx.violation('6', 'thread-died %s @%s' % (exc.split(':')[0], cflib_site(tb)),
                      'library thread %s died: %s' % (name, exc), tb)
    if 't_end' not in res:
        return
    if prog['kind'] == 'mc':
        oracle_mc(ctx, plan, dev, calls, marks, res, jitter)
    else:
        oracle_hl(ctx, plan, dev, calls, marks, res, jitter)


def tail_check(ctx, dev, calls, res, expected_tail, what):
    """Clause 1: the stop command(s) are the last thing sent."""
    if 'exc' in res:
        e = res['exc']
        ctx.violation('1', '%s-raised %s @%s' % (what, type(e).__name__, site_of(e)),
                      'leaving the %s raised %r: the ground command was not completed' % (what, e))
    names = [c[1] for c in calls[:res['calls_at_end']]]
    flight = [n for n in names]
    if flight[-len(expected_tail):] != expected_tail:
        ctx.violation('1', '%s-does-not-end-with-stop' % what, 'last commander calls %r, expected to end with %r'
                      % (flight[-4:], expected_tail))
    if len(calls) > res['calls_at_end'] + 1:      # +1: close_link sends one zero setpoint
        ctx.violation('1', 'setpoints-after-landing', 'commander calls after the stop: %r' % (calls[res['calls_at_end']:][:4],))
    # wire level: the last packets on the setpoint ports are the stop command(s); only close_link's zero setpoint
    # (port 3) may follow
    sink = dev.sink[res['sink0']:]
    sp = [(port, ch, bytes(data)) for (t, sess, port, ch, data) in sink if port in (7, 8)]
    if what == 'MotionCommander':
        want = [(7, 0, b'\x00'), (7, 1, b'\x00\x00\x00\x00\x00')]
    else:
        want = None
    if 'exc' not in res and want is not None and sp[-2:] != want:
        ctx.violation('1', 'wire-does-not-end-with-stop', 'last setpoint-port packets on the wire: %r' % (sp[-3:],))
    if 'exc' not in res and want is None and (not sp or sp[-1][0] != 8 or sp[-1][2][:1] != b'\x03'):
        ctx.violation('1', 'wire-does-not-end-with-hl-stop', 'last setpoint-port packets on the wire: %r' % (sp[-3:],))


def site_of(e):
    import traceback
    tb = ''.join(traceback.format_exception(type(e), e, e.__traceback__))
    return cflib_site(tb)


def oracle_mc(ctx, plan, dev, calls, marks, res, jitter):
    prog = plan['prog']
    tail_check(ctx, dev, calls, res, ['send_stop_setpoint', 'send_notify_setpoint_stop'], 'MotionCommander')
    if prog['raise_at'] is not None and not res.get('body_error_propagated') and 'exc' not in res:
        ctx.violation('1', 'body-exception-swallowed', 'the exception raised in the body did not propagate')
    if plan['scenario'] == 'fly-mc-stalled':
        ctx.probe('flight under long scheduling stalls (timing clauses not judged)')
        return
    hov = [(c[0], c[2]) for c in calls if c[1] == 'send_hover_setpoint']
    if not hov:
        if 'exc' not in res:
            ctx.violation('2', 'no-hover-setpoints', 'no hover setpoint was streamed during the flight')
        return
    legacy = plan['version'] <= 8
    # wire decode equals the commander arguments
    wire = [(t, data) for (t, sess, port, ch, data) in dev.sink[res['sink0']:] if port == 7 and ch == 0 and data[:1]
            in (b'\x0a', b'\x05')]
    if len(wire) != len(hov):
        ctx.violation('2', 'hover-packet-count', '%d hover packets on the wire for %d commander calls' % (len(wire), len(hov)))
    else:
        for (t, a), (tw, data) in zip(hov, wire):
            typ, vx, vy, yr, z = struct.unpack('<Bffff', data)
            exp = (a[0], a[1], -a[2] if legacy else a[2], a[3])
            if typ != (5 if legacy else 10) or any(abs(x - struct.unpack('<f', struct.pack('<f', y))[0]) > 1e-6 * max(1, abs(y))
                                                   for x, y in zip((vx, vy, yr, z), exp)):
                ctx.violation('2', 'hover-packet-decodes-differently', 'call %r, packet type %d fields %r'
                              % (a, typ, (vx, vy, yr, z)))
                break
    # clause 2: streaming period while flying (from the first setpoint to the stop)
    period = 0.2
    stop_t = [c[0] for c in calls if c[1] == 'send_stop_setpoint']
    t_stop = stop_t[-1] if stop_t else res['t_end']
    times = [h[0] for h in hov] + [t_stop]
    for a, b in zip(times, times[1:]):
        if b - a > period + jitter + 1e-6:
            ctx.violation('2', 'hover-stream-gap', 'no hover setpoint for %.4f s (update period %.1f s) at t=%.3f'
                          % (b - a, period, a))
            break
    # clause 3: height = integral of the commanded vertical velocity; reconstruct the commanded vz time line from the
    # program: vertical velocity changes only at primitive boundaries (begin/stop instants)
    vz_events = []      # (t, vz)
    t_fly = res.get('t_flying')
    for m in marks:
        pass
    # derive commanded vz from the primitives and their begin/end times
    z = 0.0
    # take-off: up(default_height, 0.2) starting after the estimator reset (2.1 s of sleeps)
    # instead of re-deriving instants we integrate the *hover setpoints' own z* against the vx/vy-independent model:
    # between two consecutive setpoints the height must change by vz_cmd * dt where vz_cmd is the commanded one.
    segs = commanded_vz(plan, marks, res, hov)
    if segs is not None:
        for (t, args) in hov:
            if t >= res.get('t_body_end', 1e18) - 1e-12:
                break
            exp = z_at(segs, t)
            if exp is None:
                continue
            tol = 1e-6 + (abs(exp[1]) + 1.0) * (jitter * 4 + 1e-9) + 1e-6 * abs(exp[0])
            if abs(args[3] - exp[0]) > tol:
                ctx.violation('3', 'height-not-integral-of-vz', 'setpoint at t=%.4f has height %.6f, integral of the '
                              'commanded vertical velocity is %.6f' % (t, args[3], exp[0]))
                break
    # clause 4: displacement per blocking primitive = velocity x duration
    for i, p in enumerate(plan['ops']):
        b = [m for m in marks if m[1] == 'begin' and m[2] == i]
        e = [m for m in marks if m[1] == 'end' and m[2] == i]
        if not b or not e:
            continue
        t0, t1 = b[0][0], e[0][0]
        i0, i1 = b[0][4], e[0][4]
        # the stream of this primitive: from its first setpoint (sent at t0) up to and including the setpoint that its
        # final stop() produces.  stop() only enqueues: the setpoint thread sends that one at the same virtual instant,
        # before or after the primitive has returned; it is the first hover setpoint at time >= t1.
        inside = []
        for c in calls[i0:]:
            if c[1] != 'send_hover_setpoint':
                continue
            if c[0] > t1 + 1e-9:
                break
            inside.append((c[0], c[2]))
            if c[0] >= t1 - 1e-12 and all(abs(v) < 1e-12 for v in c[2][:3]):
                break       # (a periodic setpoint may coincide with t1: the terminating one has zero velocities)
        k = p[0]
        if k in ('forward', 'back', 'left', 'right', 'up', 'down', 'move', 'turn_left', 'turn_right', 'circle_left',
                 'circle_right'):
            want = want_displacement(p)
            got = integrate(inside, t1)
            speed = max(abs(p[2]) if k not in ('move',) else abs(p[4]), 1e-9) if k not in ('turn_left', 'turn_right') else 0.0
            tol_lin = 1e-6 + (speed + 1e-9) * (jitter * 2) + 1e-9
            tol_yaw = 1e-6 + 400.0 * (jitter * 2)
            dz_got = (inside[-1][1][3] - inside[0][1][3]) if inside else 0.0
            if inside and not (abs(inside[-1][1][0]) < 1e-12 and abs(inside[-1][1][1]) < 1e-12 and
                               abs(inside[-1][1][2]) < 1e-12):
                ctx.violation('4', 'primitive-does-not-end-with-stop', 'primitive %r: last setpoint %r' % (p, inside[-1][1]))
                break
            err = (abs(got[0] - want[0]), abs(got[1] - want[1]), abs(dz_got - want[2]), abs(got[2] - want[3]))
            if err[0] > tol_lin or err[1] > tol_lin or err[2] > tol_lin + 1e-6 or err[3] > tol_yaw:
                ctx.violation('4', 'displacement-differs (%s)' % k, 'primitive %r commanded (x %.5f, y %.5f, z %.5f, yaw %.3f), '
                              'requested (x %.5f, y %.5f, z %.5f, yaw %.3f)' % (p, got[0], got[1], dz_got, got[2],
                                                                                want[0], want[1], want[2], want[3]))
                break


def want_displacement(p):
    k = p[0]
    if k == 'forward':
        return (p[1], 0.0, 0.0, 0.0)
    if k == 'back':
        return (-p[1], 0.0, 0.0, 0.0)
    if k == 'left':
        return (0.0, p[1], 0.0, 0.0)
    if k == 'right':
        return (0.0, -p[1], 0.0, 0.0)
    if k == 'up':
        return (0.0, 0.0, p[1], 0.0)
    if k == 'down':
        return (0.0, 0.0, -p[1], 0.0)
    if k == 'move':
        return (p[1], p[2], p[3], 0.0)
    if k == 'turn_left':
        return (0.0, 0.0, 0.0, p[1])
    if k == 'turn_right':
        return (0.0, 0.0, 0.0, -p[1])
    if k == 'circle_left':
        return (2 * math.pi * p[1] * p[3] / 360.0, 0.0, 0.0, p[3])
    if k == 'circle_right':
        return (2 * math.pi * p[1] * p[3] / 360.0, 0.0, 0.0, -p[3])


def integrate(inside, t_end):
    """Body-frame path length commanded by piecewise constant hover setpoints (x, y, yaw)."""
    x = y = yaw = 0.0
    for (t, a), nxt in zip(inside, inside[1:] + [(t_end, None)]):
        dt = nxt[0] - t
        x += a[0] * dt
        y += a[1] * dt
        yaw += a[2] * dt
    return (x, y, yaw)


def commanded_vz(plan, marks, res, hov):
    """Piecewise constant commanded vertical velocity as (t, vz) change points, derived from the observed setpoint
    stream itself is circular; derive it from the program: vertical velocity of each primitive between its begin and
    end marks, zero otherwise.  Take-off and landing are derived from the stream boundaries."""
    prog = plan['prog']
    segs = []
    # take-off: the first hover setpoint starts the climb with 0.2 m/s for default_height / 0.2 s
    if not hov:
        return None
    t_first = hov[0][0]
    h = prog['default_height']
    segs.append((t_first, 0.2))
    segs.append((t_first + h / 0.2, 0.0))
    approx = set()
    approx.add(len(segs) - 1)
    for i, p in enumerate(plan['ops']):
        b = [m for m in marks if m[1] == 'begin' and m[2] == i]
        e = [m for m in marks if m[1] == 'end' and m[2] == i]
        if not b:
            continue
        t0 = b[0][0]
        t1 = e[0][0] if e else None
        k = p[0]
        vz = None
        blocking = True
        if k == 'up':
            vz = p[2]
        elif k == 'down':
            vz = -p[2]
        elif k == 'move':
            d = math.sqrt(p[1] ** 2 + p[2] ** 2 + p[3] ** 2)
            vz = p[4] * p[3] / d
        elif k in ('forward', 'back', 'left', 'right', 'turn_left', 'turn_right', 'circle_left', 'circle_right'):
            vz = 0.0
        elif k == 'start':
            blocking = False
            vz = {'up': p[2], 'down': -p[2], 'linear': p[5]}.get(p[1], 0.0)
        elif k in ('start_turn', 'start_circle', 'stop'):
            blocking = False
            vz = 0.0
        if vz is None:
            continue
        segs.append((t0, vz))
        if blocking and t1 is not None:
            segs.append((t1, 0.0))
    return sorted(segs, key=lambda s: s[0])


def z_at(segs, t):
    """Height at time t from the change points (exact only up to sleep jitter); None once landing has begun."""
    z = 0.0
    vz = 0.0
    last = segs[0][0]
    for (ts, v) in segs:
        if ts > t:
            break
        z += vz * (ts - last)
        last = ts
        vz = v
    z += vz * (t - last)
    return (z, vz)


def oracle_hl(ctx, plan, dev, calls, marks, res, jitter):
    prog = plan['prog']
    tail_check(ctx, dev, calls, res, ['stop'], 'PositionHlCommander')
    if prog['raise_at'] is not None and not res.get('body_error_propagated') and 'exc' not in res:
        ctx.violation('1', 'body-exception-swallowed', 'the exception raised in the body did not propagate')
    names = [c[1] for c in calls]
    if any(n.startswith('send_') and n != 'send_setpoint' for n in names[:res['calls_at_end']]):
        ctx.violation('1', 'low-level-setpoint-from-hl-commander', '%r' % ([n for n in names if n.startswith('send_')][:3],))
    # clause 5: dead reckoning
    x, y, z = prog['x'], prog['y'], prog['z']
    dv, dh = prog['default_velocity'], prog['default_height']
    gotos = [c for c in calls if c[1] == 'go_to']
    takeoffs = [c for c in calls if c[1] == 'takeoff']
    if 'exc' in res and not takeoffs:
        return
    if len(takeoffs) != 1:
        ctx.violation('5', 'takeoff-count', '%d takeoff commands' % len(takeoffs))
        return
    th, td = takeoffs[0][2][0], takeoffs[0][2][1]
    if abs(th - dh) > EPS or abs(td - dh / dv) > EPS:
        ctx.violation('5', 'takeoff-arguments', 'takeoff(%r, %r), expected height %r duration %r' % (th, td, dh, dh / dv))
    z = dh
    gi = 0
    for i, p in enumerate(plan['ops']):
        e = [m for m in marks if m[1] == 'end' and m[2] == i]
        if not e:
            break
        k = p[0]
        tx, ty, tz = x, y, z
        v = dv
        if k in ('forward', 'back', 'left', 'right', 'up', 'down', 'move'):
            d = {'forward': (p[1], 0, 0), 'back': (-p[1], 0, 0), 'left': (0, p[1], 0), 'right': (0, -p[1], 0),
                 'up': (0, 0, p[1]), 'down': (0, 0, -p[1])}.get(k) or (p[1], p[2], p[3])
            tx, ty, tz = x + d[0], y + d[1], z + d[2]
            vv = p[2] if k != 'move' else p[4]
            v = vv if vv is not None else dv
        elif k == 'go_to':
            tx, ty = p[1], p[2]
            tz = p[3] if p[3] is not None else dh
            v = p[4] if p[4] is not None else dv
        elif k == 'set_v':
            dv = p[1]
            continue
        elif k == 'set_h':
            dh = p[1]
            continue
        elif k == 'set_lh':
            continue
        dist = math.sqrt((tx - x) ** 2 + (ty - y) ** 2 + (tz - z) ** 2)
        if dist > 0.0:
            if gi >= len(gotos):
                ctx.violation('5', 'go-to-missing', 'primitive %r issued no go-to' % (p,))
                return
            a = gotos[gi][2]
            gi += 1
            if max(abs(a[0] - tx), abs(a[1] - ty), abs(a[2] - tz)) > 1e-9 or abs(a[4] - dist / v) > 1e-9 * max(1, dist / v):
                ctx.violation('5', 'go-to-target-or-duration-differs', 'primitive %r: go_to%r, expected target (%.6f, %.6f, '
                              '%.6f) duration %.6f' % (p, a[:5], tx, ty, tz, dist / v))
                return
            x, y, z = tx, ty, tz
        pos = e[0][4]
        if max(abs(pos[0] - x), abs(pos[1] - y), abs(pos[2] - z)) > 1e-9:
            ctx.violation('5', 'reported-position-differs', 'after %r get_position() = %r, start + displacements = (%.6f, %.6f, '
                          '%.6f)' % (p, pos, x, y, z))
            return
