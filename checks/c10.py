"""
C10 — unanswered requests are retried until answered, and only then.

Real: Crazyflie.send_packet/_no_answer_do_retry/_check_for_answers/close_link, threading.Timer logic on
the virtual clock, dispatcher; the library's own requests (TOC, mem info, ...) and harness requests to an
echo service (port 9) with pattern sets that share prefixes.  Stub: SimLink, SimCF.
"""
import random

from simkit import primitives as P
from simkit.harness import H, cflib_site
from world import gen as wgen
from . import common

ID = 'C10'
BUDGET = {'quick': 50, 'thorough': 900}
MINIMISE_OPS = True

EVIDENCE = {
    'rule': 'Each run is 1-3 sessions on one Crazyflie; in each session 1-2 harness threads send requests with expected '
            'replies (distinct patterns that share prefixes, timeouts 0.05-0.5 s) to an echo service while requests and '
            'replies are lost and replies are delayed around the timer period; sessions end with close_link at a seeded '
            'instant (possibly with timers pending) and the object is reopened.  The driver close takes 0-100 ms of virtual '
            'time during which packets handed to it are accepted and discarded.  The table of pending answers is observed '
            'through a dict subclass, i.e. at the library\'s own reads and writes under its own lock.  10 % of the plans run '
            'over the real RadioDriver instead (fake dongle, ESB/safelink peer, SimCF echo service): the radio thread of one '
            'driver object is started 1-3 times (pause/restart, close/connect) against a peer that confirms safelink or not; '
            'on a safelink link a request must reach the Crazyflie exactly once even if its reply is later than the timeout, '
            'without safelink a request the firmware ignores k times must be retransmitted until it is answered.',
    'directed': 'reply delay swept across the timer period (timeout-2ms .. timeout+2ms in 0.5 ms steps) for one request',
    'real': ['Crazyflie.send_packet', '_no_answer_do_retry', '_check_for_answers', 'close_link', '_link_error_cb',
             'threading.Timer logic', '_IncomingPacketHandler', 'TocFetcher/Memory/Log requests during the handshake'],
    'stub': ['SimLink (needs_resending True/False)', 'SimCF incl. echo service on port 9'],
    'assumptions': [
        'a retransmission that had already entered the retry path (_no_answer_do_retry called) when the matching reply was '
        'processed is not counted as "retransmitted after the answer" (the two threads share no lock by design)',
        'a packet handed to the link by a send_packet call that began before close_link was called is not counted as '
        'transmitted on a closed link',
        'requests pending at the same time may have the identical pattern (40 % of the drawn collisions are kept): each is '
        'retransmitted until a packet matching the pattern is processed, and that packet answers all of them (the statement '
        'read per request)',
        'timing clause: with stalls enabled a retransmission may be late by the stall window per scheduling decision; '
        'slack 0.15 s is used in those runs, 1 us otherwise',
    ],
}


def gen_radio(seed, rng, knobs):
    """The library's notion of "a link that guarantees delivery" over the real radio driver: a Crazyflie object on a
    RadioDriver whose radio thread is started 1-3 times (pause/restart or close/connect of the same driver object, as
    a boot-loader or scanning tool does), each time against a peer that does or does not confirm safelink."""
    knobs['line_mean'] = rng.choice([0, 0, 10])
    knobs.pop('pct', None)
    knobs.pop('p_starve', None)
    phases = []
    for _ in range(rng.choice([1, 2, 2, 3])):
        reqs = []
        for i in range(rng.choice([1, 2, 4])):
            reqs.append({'ch': rng.randrange(4), 'data': [0x40 + len(phases) * 8 + i, rng.randrange(256), rng.randrange(256)],
                         'k': rng.choice([1, 2, 3]), 'timeout': rng.choice([0.05, 0.1, 0.2]),
                         'drop': rng.choice([0, 0, 1, 2, 4]), 'gap': rng.choice([0.0, 0.01, 0.1])})
        phases.append({'safelink': rng.random() < 0.5, 'via': rng.choice(['pause', 'close']), 'reqs': reqs,
                       'reply_delay': rng.choice([0.0, 0.0, 0.3])})
    return {'seed': seed, 'scenario': 'retry-radio-driver-reuse', 'knobs': knobs, 'radio': True, 'ops': phases,
            'device': wgen.gen_device(rng, n_log=1, n_param=1, version=10, mems=[])}


def gen(seed):
    rng = random.Random(H(seed, 'plan'))
    knobs = common.sched_knobs(rng)
    if rng.random() < 0.1:
        return gen_radio(seed, rng, knobs)
    knobs['needs_resending'] = rng.random() < 0.8
    knobs['lat'] = rng.choice([(0.0005, 0.003), (0.0, 0.0), (0.002, 0.02)])
    mode = rng.choice(['clean', 'loss', 'delay', 'mix', 'mix'])
    rates = {}
    if mode in ('loss', 'mix') and knobs['needs_resending']:
        rates['up_loss'] = rng.choice([0.1, 0.3, 0.5])
        rates['down_loss'] = rng.choice([0.1, 0.3, 0.5])
    if mode in ('delay', 'mix'):
        rates['down_delay'] = rng.choice([0.1, 0.3])
    knobs['rates'] = rates
    knobs['close_duration'] = rng.choice([0.0, 0.0, 0.002, 0.02, 0.1])
    dev = wgen.gen_device(rng, n_log=rng.choice([1, 3]), n_param=rng.choice([1, 3]), version=rng.choice([10, 3]),
                          mems=[[0x18, 32, None]])
    nsess = rng.choice([1, 2, 2, 3])
    ops = []
    for si in range(nsess):
        reqs = []
        used = set()
        for _ in range(rng.choice([0, 1, 3, 6, 10])):
            ch = rng.randrange(4)
            # payloads share prefixes: drawn from a tiny alphabet
            ln = rng.randint(1, 5)
            data = [rng.choice([1, 2]) for _ in range(ln)]
            k = rng.randint(1, ln)
            pat = (ch,) + tuple(data[:k])
            if ('full', ch, tuple(data)) in used:
                continue
            if pat in used and rng.random() < 0.6:
                continue        # (identical patterns with different payloads are kept in 40 % of the cases: e.g. the two
                #                  append messages of one log block expect the same answer)
            used.add(('full', ch, tuple(data)))
            # the full payload must not equal another request's payload either (its echo would be ambiguous)
            used.add(pat)
            reqs.append({'ch': ch, 'data': data, 'k': k, 'timeout': rng.choice([0.05, 0.1, 0.2, 0.2, 0.5]),
                         'at': round(rng.uniform(0, 0.6), 4), 'thread': rng.randrange(2)})
        ops.append({'wait': rng.choice(['none', 'link', 'connected', 'connected']),
                    'reqs': reqs,
                    'close_after': round(rng.choice([rng.uniform(0, 0.3), rng.uniform(0.3, 1.5), 3.0]), 4),
                    'fail': rng.random() < 0.15})
    return {'seed': seed, 'scenario': 'retry-' + mode, 'knobs': knobs, 'device': dev, 'ops': ops}


def directed(tier):
    plans = []
    rng = random.Random(4242)
    dev = wgen.gen_device(rng, n_log=1, n_param=1, version=10, mems=[])
    step = 0.0005 if tier == 'quick' else 0.0001
    n = 0
    for timeout in ((0.05, 0.2) if tier == 'quick' else (0.05, 0.1, 0.2, 0.5)):
        for i in (range(-4, 5) if tier == 'quick' else range(-25, 26)):
            n += 1
            plans.append({'seed': 920000 + n, 'scenario': 'directed-delay-around-timer',
                          'knobs': {'line_mean': 0, 'p_stall': 0.0, 'needs_resending': True, 'lat': (0.001, 0.001),
                                    'rates': {}, 'echo_delay': round(timeout + i * step - 0.002, 6)},
                          'device': dev,
                          'ops': [{'wait': 'connected', 'close_after': 1.5, 'fail': False,
                                   'reqs': [{'ch': 0, 'data': [1, 2, 1], 'k': 2, 'timeout': timeout, 'at': 0.01,
                                             'thread': 0}]}]})
    # the reply to a request, the expiry of its retry timer and a second request with the same pattern all fall on the
    # same virtual instant; priority schedules decide the order of the three threads
    # the retry timer of A expires, the thread that runs the retry is kept off the CPU (starvation) while virtual time moves
    # on (stall): the reply to A is dispatched and B (same pattern) is registered before the retry looks A up
    for timeout in (0.05, 0.2):
        for db in ((0.001, 0.004) if tier == 'quick' else (0.0005, 0.001, 0.002, 0.004, 0.008)):
            for v in range(8 if tier == 'quick' else 30):
                n += 1
                plans.append({'seed': 920000 + n, 'scenario': 'directed-same-pattern-at-timer', 'sched': {'alt': v},
                              'knobs': {'line_mean': [2, 3, 5][v % 3], 'p_stall': 0.5, 'stall_window': 0.02,
                                        'needs_resending': True, 'lat': (0.001, 0.001), 'rates': {},
                                        'echo_delay': round(timeout - 0.002 + db / 2, 6),
                                        'p_starve': 0.3, 'starve_len': 2000},
                              'device': dev,
                              'ops': [{'wait': 'connected', 'close_after': 1.5, 'fail': False,
                                       'reqs': [{'ch': 0, 'data': [1, 2, 1], 'k': 2, 'timeout': timeout, 'at': 0.01,
                                                 'thread': 0},
                                                {'ch': 0, 'data': [1, 2, 2], 'k': 2, 'timeout': timeout,
                                                 'at': round(0.01 + timeout + db, 6), 'thread': 1}]}]})
    return plans


def execute_radio(ctx):
    import cflib.crtp.radiodriver as rd
    from cflib.crazyflie import Crazyflie
    from cflib.crtp.crtpstack import CRTPPacket
    from world.radiocf import RadioWorld
    plan, sim = ctx.plan, ctx.sim
    dev = wgen.build_device(sim, plan['device'])
    rw = RadioWorld(sim, ctx.faults, dev, airtime=0.001, safelink=plan['ops'][0]['safelink'])
    Drv = rw.install()
    rd.set_retries_before_disconnect(100)
    rd.set_retries(1)
    ctx.notes['nontrivial'] = True
    uri = 'radio://0/80/2M/E7E7E7E7E7'
    st = {'drop': {}, 'seen': {}, 'answered': {}}
    orig_receive = dev.receive

    def receive(link, header, data):
        # the firmware ignores the first `drop` copies of a request (busy, queue overflow): only the library's own
        # retransmission can get it through
        if (header >> 4) & 0xF == 9:
            key = (header & 3, bytes(data))
            st['seen'].setdefault(key, []).append(sim.now)
            if st['drop'].get(key, 0) > 0:
                st['drop'][key] -= 1
                return
        return orig_receive(link, header, data)
    dev.receive = receive

    def scenario():
        drv = Drv()
        errs = []
        drv.connect(uri, None, lambda msg: errs.append(msg))
        cf = Crazyflie(link=drv)
        got = []
        cf.packet_received.add_callback(lambda pk: got.append((sim.now, pk.header, bytes(pk.data))) if pk.port == 9 else None)
        for pi, ph in enumerate(plan['ops']):
            if pi > 0:
                # stop the radio thread, the Crazyflie reboots with another safelink capability, start the same object again
                if ph['via'] == 'pause':
                    drv.pause()
                else:
                    drv.close()
                p_ = rw.peer
                p_.safelink_capable = ph['safelink']
                p_.has_safelink = False
                p_.curr_up = p_.curr_down = 1
                p_.last_pid = p_.last_frame = None
                p_.last_ack = b''
                del p_.txq[:]
                if ph['via'] == 'pause':
                    drv.restart()
                else:
                    drv.connect(uri, None, lambda msg: errs.append(msg))
                    # (the dispatcher may sit for up to a second on the receive queue of the closed session)
                    P.sim_sleep(1.1)
                ctx.probe('same radio driver object started again (%s)' % ph['via'])
            # wait for the negotiation to finish
            common.wait_until(sim, lambda: rw.peer.has_safelink == ph['safelink'] and rw.dongle.results and
                              (ph['safelink'] or sum(1 for r in rw.dongle.results[-12:] if r[3] == bytes([0xFF, 5, 1])) == 0),
                              1.0, 0.002)
            P.sim_sleep(0.05)
            dev.reply_delay = (lambda port, ch, data, d=ph['reply_delay']: d if port == 9 else 0.0) if ph['reply_delay'] else None
            issued = []
            for r in ph['reqs']:
                P.sim_sleep(r['gap'])
                pk = CRTPPacket()
                pk.set_header(9, r['ch'])
                pk.data = bytes(r['data'])
                key = (r['ch'], bytes(r['data']))
                st['drop'][key] = r['drop'] if not ph['safelink'] else 0
                t0 = sim.now
                cf.send_packet(pk, expected_reply=tuple(r['data'][:r['k']]), timeout=r['timeout'])
                issued.append((r, key, t0))
            # quiescence
            P.sim_sleep(max(r['timeout'] for r in ph['reqs']) * 7 + ph['reply_delay'] + 0.5)
            for (r, key, t0) in issued:
                seen = st['seen'].get(key, [])
                answered = [g for g in got if g[0] >= t0 and (g[1] & 3) == r['ch'] and g[2] == bytes(r['data'])]
                if ph['safelink']:
                    ctx.probe('requests on a safelink radio link')
                    if len(seen) != 1:
                        ctx.violation('4', 'retransmission-on-reliable-link', 'phase %d (safelink confirmed, driver started '
                                      'via %s): request %r reached the Crazyflie %d times (reply delay %.2f s, timeout %.2f s)'
                                      % (pi, ph['via'] if pi else 'connect', key, len(seen), ph['reply_delay'], r['timeout']))
                        return
                else:
                    ctx.probe('requests on a radio link without safelink')
                    if len(seen) < r['drop'] + 1 or not answered:
                        ctx.violation('1', 'request-not-retransmitted', 'phase %d (no safelink, driver started via %s): '
                                      'request %r was ignored %d times by the firmware and reached it only %d times; '
                                      'answered %d times; link.needs_resending=%r' % (
                                          pi, ph['via'] if pi else 'connect', key, r['drop'], len(seen), len(answered),
                                          getattr(drv, 'needs_resending', None)))
                        return
                    # (the retransmission interval is judged on SimLink, where the instant a packet is handed to the link
                    # is observable; here a packet waits in the driver's queue for the radio loop)
            if cf._answer_patterns:
                ctx.violation('1', 'request-never-answered', 'phase %d: still pending %r' % (pi, sorted(cf._answer_patterns)))
                return
        drv.close()
        if errs:
            ctx.violation('0', 'unexpected-link-error', errs[0][:100])
        P.sim_sleep(0.3)

    verdict = sim.run(scenario)
    if verdict[0] in ('deadlock', 'timeout', 'livelock'):
        from simkit.harness import hang_signature
        sg, msg = hang_signature(verdict)
        ctx.violation('0', sg, msg, verdict[1])
    for name, exc, tb in sim.thread_deaths:
        ctx.violation('0', 'thread-died %s @%s' % (exc.split(':')[0], cflib_site(tb)),
                      'library thread %s died: %s' % (name, exc), tb)


def execute(ctx):
    if ctx.plan.get('radio'):
        return execute_radio(ctx)
    from cflib.crazyflie import Crazyflie
    from cflib.crtp.crtpstack import CRTPPacket
    plan = ctx.plan
    sim = ctx.sim
    w, devs = common.make_world(ctx, {'cf': plan['device']})
    dev = devs['cf']
    w.lossy = lambda direction, header, data: ((header >> 4) & 0xF) == 9 or _retried(header, data)
    w.close_duration = ctx.knobs.get('close_duration', 0.0)
    # a link stops transmitting when its driver starts closing (by close_link or by the link error handler)
    w.on_link_close = lambda link: ev.append(('link-down', sim.now, link.session))
    if ctx.knobs.get('echo_delay') is not None:
        d = ctx.knobs['echo_delay']
        dev.reply_delay = lambda port, channel, data: d if port == 9 else 0.0
    ctx.notes['nontrivial'] = plan['scenario'].startswith('directed')
    slack = 0.15 if ctx.knobs.get('p_stall') else 1e-6
    tx = []            # (seq, t, session, id(pk), header, data, closed?)
    pk_first = {}      # id(pk) -> (session, t)
    keep = []          # keep packet objects alive so that id() stays unique
    ev = []            # global event list: ('tx'|'retry-begin'|'answered'|'close-call'|'close-ret'|'send-begin', ...)
    model = {}         # pattern -> [dict(pk id, timeout, session)]   (reference model of pending requests)
    req_info = {}      # pk id -> timeout, session, pattern

    def on_uplink(link, pk):
        keep.append(pk)
        tx.append((len(ev), sim.now, link.session, id(pk), pk.header, bytes(pk.data)))
        ev.append(('tx', sim.now, link.session, id(pk)))
        pk_first.setdefault(id(pk), (link.session, sim.now))
    w.on_uplink = on_uplink

    state = {}

    def scenario():
        cf = Crazyflie()
        state['cf'] = cf
        # wrap the retry entry point (looked up through the instance by the timer lambda)
        orig_retry = cf._no_answer_do_retry

        retry_threads = {}

        def retry(pk, pattern, *a, **k):
            ev.append(('retry-begin', sim.now, id(pk), pattern))
            ctx.probe('retry timer fired')
            retry_threads[P.get_ident()] = id(pk)
            try:
                return orig_retry(pk, pattern, *a, **k)
            finally:
                retry_threads.pop(P.get_ident(), None)
        state['retry_threads'] = retry_threads
        cf._no_answer_do_retry = retry
        orig_send = cf.send_packet

        def send(pk, expected_reply=(), resend=False, timeout=0.2, **kw):
            keep.append(pk)
            link = cf.link
            ev.append(('send-begin', sim.now, id(pk), resend))
            if not resend and len(expected_reply) > 0 and link is not None and link.needs_resending:
                pattern = (pk.header,) + tuple(expected_reply)
                model.setdefault(pattern, []).append({'pk': id(pk), 'timeout': timeout, 'session': link.session})
                req_info[id(pk)] = {'timeout': timeout, 'session': link.session, 'pattern': pattern}
            return orig_send(pk, expected_reply, resend, timeout, **kw)
        cf.send_packet = send
        # the table of pending answers is observed at the points where the library reads and changes it (i.e. under the
        # library's own lock): the view the matcher had, what it removed, and which requests a removal answered
        obs_by_thread = {}

        class ObservedDict(dict):
            # the retry path looks its request up (under the library's lock) before it retransmits
            def _lookup(self):
                pid = state['retry_threads'].get(P.get_ident())
                if pid is not None:
                    ev.append(('retry-check', sim.now, pid))

            def get(self, k, *d):
                self._lookup()
                return dict.get(self, k, *d)

            def __contains__(self, k):
                self._lookup()
                return dict.__contains__(self, k)

            def __getitem__(self, k):
                self._lookup()
                return dict.__getitem__(self, k)

            def keys(self):
                ks = list(dict.keys(self))
                o = obs_by_thread.get(P.get_ident())
                if o is not None:
                    o['keys'] = ks
                return ks

            def __delitem__(self, k):
                v = dict.get(self, k)
                dict.__delitem__(self, k)
                self._removed(k, v)

            def pop(self, k, *d):
                v = dict.pop(self, k, *d)
                self._removed(k, v)
                return v

            def _removed(self, k, v):
                if v is not None:
                    o = obs_by_thread.get(P.get_ident())
                    if o is not None:
                        o['pops'].append(k)
                    if isinstance(v, dict):
                        ids = set(id(x) for x in v)
                        for m in list(model.get(k, [])):
                            if m['pk'] in ids:
                                ev.append(('answered', sim.now, m['pk'], k))
                                model[k].remove(m)
                        if k in model and not model[k]:
                            del model[k]
                    else:
                        for m in model.pop(k, []):
                            ev.append(('answered', sim.now, m['pk'], k))
        state['fresh_table'] = lambda: ObservedDict()
        cf._answer_patterns = ObservedDict()
        cbs = cf.packet_received.callbacks
        idx = [i for i, c in enumerate(cbs) if getattr(c, '__func__', None) is type(cf)._check_for_answers][0]
        orig_check = cbs[idx]

        def check(pk):
            data = (pk.header,) + tuple(pk.data)
            o = {'keys': None, 'pops': []}
            tid = P.get_ident()
            obs_by_thread[tid] = o
            table = cf._answer_patterns
            before = set(dict.keys(table))
            try:
                orig_check(pk)
            finally:
                obs_by_thread.pop(tid, None)

            def match(p):
                return len(p) <= len(data) and p == data[:len(p)]
            if not isinstance(table, ObservedDict) or cf._answer_patterns is not table:
                return                     # torn down meanwhile: nothing is pending any more
            # the matcher's own view if it listed the keys, else the table just before the call (no concurrent sender can
            # be told apart then, so only patterns present before and after are judged)
            exact = o['keys'] is not None
            view = set(o['keys']) if exact else before & set(dict.keys(table)) | set(o['pops'])
            cands = [p for p in view if match(p)]
            want = max(cands, key=len) if cands else None
            pops = o['pops']
            if len(pops) > 1:
                ctx.violation('3', 'several-patterns-cancelled', 'packet %r removed %r' % (data, sorted(pops)))
            elif len(pops) == 1:
                r = pops[0]
                if not match(r):
                    ctx.violation('3', 'pattern-removed-without-match', 'packet %r removed %r' % (data, r))
                elif want is not None and len(want) > len(r):
                    ctx.violation('3', 'wrong-pattern-cancelled', 'packet %r: removed %r although the longer pending '
                                  'pattern %r matches' % (data, r, want))
                if len(cands) > 1:
                    ctx.probe('reply matched several pending patterns')
            elif want is not None:
                ctx.violation('3', 'answered-pattern-not-cancelled', 'packet %r matches pending %r but nothing was '
                              'cancelled' % (data, want))
        cbs[idx] = check

        for si, s in enumerate(plan['ops']):
            run_session(ctx, w, dev, cf, si, s, ev, model, state, CRTPPacket)
        P.sim_sleep(1.0)

    verdict = sim.run(scenario)
    if verdict[0] in ('deadlock', 'timeout', 'livelock'):
        from simkit.harness import hang_signature
        sg, msg = hang_signature(verdict)
        ctx.violation('0', sg, msg, verdict[1])
    for name, exc, tb in sim.thread_deaths:
        ctx.violation('0', 'thread-died %s @%s' % (exc.split(':')[0], cflib_site(tb)),
                      'library thread %s died: %s' % (name, exc), tb)
    oracle(ctx, w, tx, ev, pk_first, slack, req_info, sim.now)
    _debug_dump(ctx, ev)


def run_session(ctx, w, dev, cf, si, s, ev, model, state, CRTPPacket):
    sim = ctx.sim
    got = {}
    def mk(n):
        def cb(*a):
            got.setdefault(n, sim.now)
            if n in ('connection_failed', 'disconnected'):
                ev.append(('link-down', sim.now, si))
        return cb
    cbs = {n: mk(n) for n in ('link_established', 'connected', 'connection_failed', 'disconnected')}
    for n, cb in cbs.items():
        getattr(cf, n).add_callback(cb)
    if s.get('fail'):
        w.fail_plan.append({'after': ctx.work.randint(3, 40), 'mode': 'driver', 'block': 0})
    state['closing'] = 0
    if 'fresh_table' in state:
        # (a request issued by a send_packet call that raced the previous close_link may have left a dead entry behind:
        # it is carried over, it is not part of this session's model)
        t = state['fresh_table']()
        t.update(cf._answer_patterns)
        cf._answer_patterns = t
    cf.open_link('sim://cf')
    if s['wait'] != 'none':
        common.wait_until(sim, lambda: s['wait'] in got or 'connection_failed' in got or 'disconnected' in got,
                          30.0, 0.005)
    t0 = sim.now
    threads = []
    for ti in range(2):
        mine = sorted([r for r in s['reqs'] if r['thread'] == ti], key=lambda r: r['at'])
        if not mine:
            continue

        def worker(mine=mine):
            for r in mine:
                d = t0 + r['at'] - sim.now
                if d > 0:
                    P.sim_sleep(d)
                pk = CRTPPacket()
                pk.set_header(9, r['ch'])
                pk.data = bytes(r['data'])
                cf.send_packet(pk, expected_reply=tuple(r['data'][:r['k']]), timeout=r['timeout'])
        t = P.SimThread(target=worker, name='req-%d-%d' % (si, ti))
        t.daemon = True
        t.start()
        threads.append(t)
    P.sim_sleep(s['close_after'])
    last = si == len(ctx.plan['ops']) - 1
    if last and not s.get('fail'):
        # fault-free drain: everything pending must be answered, then nothing is retransmitted any more
        for t in threads:
            t.join(5.0)
        ctx.faults.rates = {}
        if ctx.faults.explicit is not None:
            ctx.faults.explicit = {}
        dev.reply_delay = None
        def pending_now():
            # entries of this session's requests (dead entries left by a send that raced an earlier close are not waited for)
            return [p_ for p_ in list(dict.keys(cf._answer_patterns)) if p_ in model]

        def quiet():
            return not pending_now() and not model
        ok = common.wait_until(sim, lambda: quiet() and (P.sim_sleep(0.05) or quiet()), 20.0, 0.01)
        if not ok and cf.link is not None:
            if pending_now():
                ctx.violation('1', 'request-never-answered', 'still pending 20 s after the last fault: %r'
                              % (sorted(pending_now()),))
            else:
                ctx.violation('1', 'model-pending-but-library-forgot', 'model still expects %r' % (sorted(model),))
    if cf._answer_patterns:
        ctx.probe('close with retry timers pending')
    ev.append(('close-call', sim.now, si))
    state['closing'] = 1
    cf.close_link()
    ev.append(('close-ret', sim.now, si))
    model.clear()
    for t in threads:
        t.join(5.0)
    for n, cb in cbs.items():
        try:
            getattr(cf, n).remove_callback(cb)
        except ValueError:
            pass
    P.sim_sleep(ctx.work.choice([0.0, 0.05, 0.3, 0.7]))


def oracle(ctx, w, tx, ev, pk_first, slack, req_info=None, t_end=0.0):
    needs = w.needs_resending
    by_pk = {}
    for rec in tx:
        by_pk.setdefault(rec[3], []).append(rec)
    # clause 4: links that guarantee delivery: no retransmission at all
    if not needs:
        for pid, recs in by_pk.items():
            if len(recs) > 1:
                ctx.violation('4', 'retransmission-on-reliable-link', 'packet %r transmitted %d times'
                              % (recs[0][4:], len(recs)))
                break
    # clause 6: never across sessions
    for pid, recs in by_pk.items():
        # the session in which the request was issued (it may never have been transmitted there: handed to a driver that
        # was already closing)
        s0 = (req_info or {}).get(pid, {}).get('session', recs[0][2])
        bad = [r for r in recs if r[2] != s0]
        if bad:
            ctx.violation('6', 'request-transmitted-in-later-session',
                          'packet header=%#x data=%r issued in session %d (first transmission at %.4f), transmitted in '
                          'session %d at %.4f' % (recs[0][4], recs[0][5], s0, recs[0][1], bad[0][2], bad[0][1]))
            break
    # clause 5: nothing handed to a link after close_link returned (of that session)
    for (t, session, kind, header, data, note) in w.wire:
        if kind == 'up-closed':
            # find whether a send-begin for this packet precedes the close call of that session
            ctx.probe('packet handed to a closed link')
            closes = [e for e in ev if e[0] == 'close-ret' and e[2] == session]
            if closes and t > closes[0][1] + slack:
                ctx.violation('5', 'transmission-on-closed-link', 'header=%#x data=%r handed to the link of session %d at '
                              '%.4f, close_link returned at %.4f' % (header, data, session, t, closes[0][1]))
                break
    # clauses 1, 2 from the event order
    answered_at = {}     # pk id -> index in ev
    retry_begin = {}     # pk id -> list of indices
    sends = {}
    retry_check = {}
    for i, e in enumerate(ev):
        if e[0] == 'answered':
            answered_at.setdefault(e[2], i)
        elif e[0] == 'retry-begin':
            retry_begin.setdefault(e[2], []).append(i)
        elif e[0] == 'retry-check':
            retry_check.setdefault(e[2], []).append(i)
    for i, e in enumerate(ev):
        if e[0] != 'tx':
            continue
        pid = e[3]
        a = answered_at.get(pid)
        if a is not None and a < i:
            # excused only if the retry path had looked the request up (found it pending) before the answer was processed;
            # if the look-up is not observable, if the retry path had been entered before the answer
            rc = [j for j in retry_check.get(pid, []) if j < i]
            rb = [j for j in retry_begin.get(pid, []) if j < i]
            last_rb = rc[-1] if rc else (rb[-1] if rb else None)
            n_tx_before = sum(1 for x in ev[:i] if x[0] == 'tx' and x[3] == pid)
            if n_tx_before >= 1 and (last_rb is None or last_rb > a):
                ctx.violation('2', 'retransmitted-after-answer', 'request pk=%d transmitted at %.4f after its answer was '
                              'processed at %.4f (retry entered after the answer)' % (pid % 100000, e[1], ev[a][1]))
                break
            ctx.probe('retry in flight while answer processed (excused)')
    # clause 1 (liveness of the retry chain): while a request is pending on an open link that needs resending, the time
    # since its last transmission never exceeds its timeout (+ slack)
    if needs and req_info:
        down = {}
        for e in ev:
            if e[0] in ('close-call', 'link-down'):
                down.setdefault(e[2], e[1])
        ans_t = {}
        for e in ev:
            if e[0] == 'answered':
                ans_t.setdefault(e[2], e[1])
        for pid, info in req_info.items():
            recs = by_pk.get(pid)
            if not recs:
                continue
            sess = recs[0][2]
            end = min(ans_t.get(pid, 1e18), down.get(sess, 1e18), t_end)
            before_end = [r[1] for r in recs if r[1] <= end + 1e-12]
            if not before_end:
                continue        # first transmitted only after the link had started to go down
            last = max(before_end)
            if end - last > info['timeout'] + slack + 1e-9:
                ctx.violation('1', 'request-not-retransmitted', 'header=%#x data=%r (timeout %.3f) was last transmitted at '
                              '%.4f and stayed unanswered on an open link until %.4f' % (
                                  recs[0][4], recs[0][5], info['timeout'], last, end))
                break
    # clause 1: retransmission interval
    timeouts = {}
    for e in ev:
        if e[0] == 'send-begin':
            pass
    for pid, recs in by_pk.items():
        if len(recs) < 2 or not needs:
            continue
        port = (recs[0][4] >> 4) & 0xF
        for a, b in zip(recs, recs[1:]):
            if a[2] != b[2]:
                continue
            gap = b[1] - a[1]
            to = ctx_timeout(ctx, port, recs[0])
            if to is None:
                continue
            # (with stalls the first transmission can be late relative to the start of its timer)
            if gap < to - (0.06 if ctx.knobs.get('p_stall') else 1e-9):
                ctx.violation('1', 'retransmitted-too-early', 'header=%#x data=%r retransmitted after %.6f s, timeout %.3f'
                              % (a[4], a[5], gap, to))
                return
            if gap > to + slack and (b[0] - a[0]) >= 0:
                ctx.violation('1', 'retransmitted-too-late', 'header=%#x data=%r retransmitted after %.6f s, timeout %.3f '
                              '(slack %.3g)' % (a[4], a[5], gap, to, slack))
                return


def ctx_timeout(ctx, port, rec):
    """Timeout the library uses for the request (by port / payload)."""
    if port == 9:
        for s in ctx.plan['ops'][rec[2]:rec[2] + 1]:
            for r in s['reqs']:
                if bytes(r['data']) == rec[5] and (rec[4] & 3) == r['ch']:
                    return r['timeout']
        return None
    if port == 4 and (rec[4] & 3) in (1, 2):
        return 1.0
    return 0.2


def _retried(header, data):
    port = (header >> 4) & 0xF
    ch = header & 3
    if port in (2, 5) and ch == 0:
        return True
    if port == 2 and ch == 3 and len(data) >= 1 and data[0] == 2:
        return True
    if port == 2 and ch in (1, 2):
        return True
    if port == 5 and ch == 1:
        return True
    if port == 4:
        return True
    return False


def _debug_dump(ctx, ev):
    import os
    if os.environ.get('VERIF_DEBUG'):
        ctx.notes['hist'] = ['%s' % (e,) for e in ev]
