"""
C18 — CPX framing and routing preserve packets under any stream fragmentation.

Real: CPXPacket, CPXRouter thread, CPX, SocketTransport, TcpDriver, _CPXReceiveThread.
Stub: in-memory socket whose recv(n) returns a seeded or enumerated number of bytes <= n; a scripted peer.
"""
import contextlib
import io
import random
import struct

from simkit import primitives as P
from simkit.harness import H, cflib_site
from world.sock import FakeNet
from . import common

ID = 'C18'
BUDGET = {'quick': 40, 'thorough': 600}
MINIMISE_OPS = True

EVIDENCE = {
    'rule': 'Each run sends up to 30 CPX packets in each direction over an in-memory socket (all targets, functions, '
            'last-packet flag values, payload 0..1000 bytes, frames with an unsupported version or illegal target / function '
            'codes in between), either through CPX + SocketTransport with one consumer thread per function, or tunnelling '
            'CRTP packets through TcpDriver; the receive side is fragmented by a seeded chunk-size policy.  The uplink '
            'packets are sent by 1-3 application threads (CRTP through TcpDriver.send_packet and raw CPX packets through '
            'cpx.sendPacket on the same link); socket.send() is a scheduling point and the byte stream on the wire must '
            'parse into an interleaving of the per-thread frame sequences.  15 % of the downlink frames stall for 0.3-3 s '
            'in the middle of the frame; socket time-outs (settimeout) are honoured by the fake socket.  Uplink CPX packet '
            'objects are built through the constructor, attribute by attribute, or get their payload replaced after '
            'construction (their wire data is compared with the expected frame before sending).',
    'directed': 'every composition of the receive chunk sizes for a 12-byte stream carrying three packets (2^11 = 2048 '
                'fragmentations; every 8th in the quick tier)',
    'real': ['CPXPacket', 'CPXRouter (thread)', 'CPX', 'SocketTransport', 'TcpDriver', '_CPXReceiveThread', 'CRTPPacket'],
    'stub': ['FakeSocket/FakeNet (cflib.cpx.transports.socket seam)', 'scripted peer'],
    'assumptions': [
        'the router by design drops packets of functions nobody has asked for yet: receivers are primed before the peer '
        'sends (TcpDriver: the peer starts once the CRTP queue exists)',
        'end of stream (recv returning no bytes) is not injected; the UART transport is not exercised (pyserial is not '
        'installed)',
    ],
}

FUNCS = [1, 2, 3, 4, 5, 0x0E, 0x0F]
TARGETS = [1, 2, 3, 4]


def frame(src, dst, fn, last, version, data):
    h0 = ((src & 7) << 3) | (dst & 7) | (0x40 if last else 0)
    h1 = (fn & 0x3F) | ((version & 3) << 6)
    body = bytes([h0, h1]) + bytes(data)
    return struct.pack('<H', len(body)) + body


def gen(seed):
    rng = random.Random(H(seed, 'plan'))
    knobs = common.sched_knobs(rng, allow_stall=False)
    mode = rng.choice(['cpx', 'cpx', 'tcp'])
    down = []
    for _ in range(rng.choice([1, 3, 10, 30])):
        r = rng.random()
        ln = rng.choice([0, 0, 1, 2, 5, 30, 31, 100, rng.randint(0, 1000) if rng.random() < 0.1 else 7])
        data = [rng.randrange(256) for _ in range(ln)]
        if mode == 'tcp':
            fn = 3 if r < 0.7 else rng.choice(FUNCS)
            if fn == 3 and len(data) > 31:
                data = data[:31]
        else:
            fn = rng.choice(FUNCS)
        pk = {'src': rng.choice(TARGETS), 'dst': rng.choice(TARGETS), 'fn': fn, 'last': rng.random() < 0.5,
              'version': 0, 'data': data, 'gap': rng.choice([0, 0, 0.001, 0.01])}
        if rng.random() < 0.15:
            # the stream stalls in the middle of this frame (a slow or congested peer)
            pk['stall'] = [rng.random(), rng.choice([0.3, 1.2, 3.0])]
        if r > 0.92:
            pk['version'] = rng.choice([1, 2, 3])
        elif r > 0.88:
            pk['fn'] = rng.choice([0, 6, 0x20, 0x3F])        # not a CPXFunction
        elif r > 0.85:
            pk['dst'] = rng.choice([0, 5, 6, 7])              # not a CPXTarget
        down.append(pk)
    up = []
    for _ in range(rng.choice([0, 1, 5, 15])):
        ln = rng.choice([0, 1, 3, 30, 100])
        if mode == 'tcp':
            ln = min(ln, 30)
        up.append({'src': rng.choice(TARGETS), 'dst': rng.choice(TARGETS), 'fn': rng.choice(FUNCS),
                   'last': rng.random() < 0.5, 'data': [rng.randrange(256) for _ in range(ln)],
                   'header': rng.randrange(256)})
    # several application threads send on the one link (CRTP traffic plus the application's own CPX packets)
    nthreads = rng.choice([1, 1, 2, 3])
    for u in up:
        u['thread'] = rng.randrange(nthreads)
        u['via'] = 'crtp' if mode == 'tcp' and rng.random() < 0.7 else 'cpx'
        # how the application builds the packet object: constructor, attribute by attribute, or a packet whose payload is
        # replaced after construction
        u['build'] = rng.choice(['ctor', 'ctor', 'attrs', 'reassign'])
    return {'seed': seed, 'scenario': 'cpx-' + mode, 'knobs': knobs, 'mode': mode, 'ops': down, 'up': up,
            'chunks': None}


def directed(tier):
    plans = []
    # three packets, 12 stream bytes: (len2+hdr2+1 data)=5, (len2+hdr2+0)=4, (len2+hdr2-> only 3 bytes? ) use 5+4+3=12
    pk = [{'src': 1, 'dst': 3, 'fn': 5, 'last': True, 'version': 0, 'data': [0xAA], 'gap': 0},
          {'src': 4, 'dst': 3, 'fn': 2, 'last': False, 'version': 0, 'data': [], 'gap': 0},
          {'src': 2, 'dst': 3, 'fn': 5, 'last': False, 'version': 0, 'data': [0x55], 'gap': 0}]
    total = sum(len(frame(p['src'], p['dst'], p['fn'], p['last'], 0, p['data'])) for p in pk)
    n = 0
    step = 8 if tier == 'quick' else 1
    for mask in range(0, 1 << (total - 1), step):
        sizes = []
        cur = 1
        for i in range(total - 1):
            if mask & (1 << i):
                sizes.append(cur)
                cur = 1
            else:
                cur += 1
        sizes.append(cur)
        n += 1
        plans.append({'seed': 99800000 + n, 'scenario': 'directed-fragmentation', 'mode': 'cpx', 'ops': pk, 'up': [],
                      'chunks': sizes, 'knobs': {'line_mean': 0, 'p_stall': 0.0}})
    return plans


def execute(ctx):
    from cflib.cpx import CPX, CPXFunction, CPXPacket, CPXTarget
    from cflib.cpx.transports import SocketTransport
    from cflib.crtp.crtpstack import CRTPPacket
    from cflib.crtp.tcpdriver import TcpDriver
    plan = ctx.plan
    sim = ctx.sim
    net = FakeNet(random.Random(H(ctx.seed, 'net')), chunks=plan.get('chunks'))
    net.install()
    ctx.notes['nontrivial'] = plan['scenario'].startswith('directed')
    mode = plan['mode']
    down = plan['ops']
    got = {}            # function value -> list of (src, dst, fn, last, data)
    crtp_rx = []
    st = {}
    legal = []
    for p in down:
        ok = p['version'] == 0 and p['fn'] in FUNCS and p['dst'] in TARGETS and p['src'] in TARGETS
        legal.append(ok)

    stall_total = sum(p['stall'][1] for p in down if p.get('stall'))

    def peer_feed(sock):
        for p in down:
            if p['gap']:
                P.sim_sleep(p['gap'])
            fr = frame(p['src'], p['dst'], p['fn'], p['last'], p['version'], p['data'])
            if p.get('stall'):
                cut = max(1, min(len(fr) - 1, int(p['stall'][0] * len(fr))))
                sock.feed(fr[:cut])
                P.sim_sleep(p['stall'][1])
                sock.feed(fr[cut:])
                ctx.probe('stream stalled in the middle of a frame')
            else:
                sock.feed(fr)
            ctx.obs('fed', p['fn'], len(p['data']))

    def build_cpx(u):
        how = u.get('build', 'ctor')
        if how == 'attrs':
            pk = CPXPacket()
            pk.function = CPXFunction(u['fn'])
            pk.destination = CPXTarget(u['dst'])
            pk.source = CPXTarget(u['src'])
            pk.data = bytes(u['data'])
        elif how == 'reassign':
            pk = CPXPacket(function=CPXFunction(u['fn']), destination=CPXTarget(u['dst']), source=CPXTarget(u['src']),
                           data=bytes(7))
            pk.data = bytes(u['data'])
        else:
            pk = CPXPacket(function=CPXFunction(u['fn']), destination=CPXTarget(u['dst']), source=CPXTarget(u['src']),
                           data=bytes(u['data']))
        pk.lastPacket = u['last']
        return pk

    def cpx_frame(u):
        return bytes([((u['src'] & 7) << 3) | (u['dst'] & 7) | (0x40 if u['last'] else 0), u['fn'] & 0x3F]) + bytes(u['data'])

    def run_senders(ups, send_one):
        groups = {}
        for u in ups:
            groups.setdefault(u.get('thread', 0), []).append(u)
        if len(groups) <= 1:
            for u in ups:
                send_one(u)
            return
        ctx.probe('several threads send on one link')
        ths = []
        for ti in sorted(groups):
            def body(mine=groups[ti]):
                for u in mine:
                    send_one(u)
            t = P.SimThread(target=body, name='sender-%d' % ti)
            t.daemon = True
            t.start()
            ths.append(t)
        for t in ths:
            t.join(30.0)

    def scenario():
        out = io.StringIO()
        with contextlib.redirect_stdout(out):
            if mode == 'cpx':
                tr = SocketTransport('sim', 5000)
                sock = net.sockets[-1]
                cpx = CPX(tr)
                fns = sorted({p['fn'] for p, ok in zip(down, legal) if ok})
                consumers = []
                # prime one queue per function that will carry packets, then start the consumers
                import queue as _q
                for fn in fns:
                    try:
                        cpx.receivePacket(CPXFunction(fn), timeout=0.0001)
                    except _q.Empty:
                        pass
                    got[fn] = []
                want = {fn: sum(1 for p, ok in zip(down, legal) if ok and p['fn'] == fn) for fn in fns}

                def consumer(fn):
                    while len(got[fn]) < want[fn]:
                        try:
                            pk = cpx.receivePacket(CPXFunction(fn), timeout=5.0 + stall_total)
                        except _q.Empty:
                            return
                        got[fn].append((pk.source.value, pk.destination.value, pk.function.value, bool(pk.lastPacket),
                                        bytes(pk.data), pk.length))
                        ctx.obs('got', fn, len(pk.data))
                for fn in fns:
                    t = P.SimThread(target=consumer, args=(fn,), name='consumer-%d' % fn)
                    t.daemon = True
                    t.start()
                    consumers.append(t)
                feeder = P.SimThread(target=peer_feed, args=(sock,), name='peer')
                feeder.daemon = True
                feeder.start()
                # uplink
                def send_cpx(u):
                    pk = build_cpx(u)
                    if bytes(pk.wireData) != cpx_frame(u):
                        ctx.violation('1', 'packet-encoding-differs', 'packet built by %s: wire data %s, expected %s'
                                      % (u.get('build', 'ctor'), bytes(pk.wireData).hex(), cpx_frame(u).hex()))
                    cpx.sendPacket(pk)
                run_senders(plan['up'], send_cpx)
                feeder.join(60.0 + stall_total)
                for t in consumers:
                    t.join(30.0 + stall_total)
                P.sim_sleep(0.5)
                st['sock'] = sock
                st['unconsumed'] = {fn: q.qsize() for fn, q in cpx._router._rxQueues.items()}
            else:
                drv = TcpDriver()
                errs = []
                drv.connect('tcp://sim:5000', None, lambda msg: errs.append(msg))
                sock = net.sockets[-1]
                st['errs'] = errs
                # the peer starts once the CRTP queue exists (the router drops functions nobody asked for yet)
                common.wait_until(sim, lambda: 3 in drv.cpx._router._rxQueues, 5.0, 0.0005)
                feeder = P.SimThread(target=peer_feed, args=(sock,), name='peer')
                feeder.daemon = True
                feeder.start()
                def send_any(u):
                    if u.get('via', 'crtp') == 'crtp':
                        drv.send_packet(CRTPPacket(u['header'], list(u['data'])))
                    else:
                        drv.cpx.sendPacket(build_cpx(u))
                run_senders(plan['up'], send_any)
                want = sum(1 for p, ok in zip(down, legal) if ok and p['fn'] == 3 and len(p['data']) > 0)
                t_end = sim.now + 30.0 + stall_total
                while len(crtp_rx) < want and sim.now < t_end:
                    pk = drv.receive_packet(0.5)
                    if pk is not None:
                        crtp_rx.append((pk.header, bytes(pk.data)))
                feeder.join(60.0 + stall_total)
                P.sim_sleep(0.5)
                while True:
                    pk = drv.receive_packet(0)
                    if pk is None:
                        break
                    crtp_rx.append((pk.header, bytes(pk.data)))
                st['sock'] = sock
        st['stdout'] = out.getvalue()[-400:]

    verdict = sim.run(scenario)
    if verdict[0] in ('deadlock', 'timeout', 'livelock'):
        from simkit.harness import hang_signature
        sg, msg = hang_signature(verdict)
        ctx.violation('2', sg, msg, verdict[1])
    for name, exc, tb in sim.thread_deaths:
        ctx.violation('2', 'thread-died %s @%s' % (exc.split(':')[0], cflib_site(tb)),
                      'library thread %s died: %s' % (name, exc), tb)
    if 'sock' not in st:
        return
    sock = st['sock']
    if any(k > 1 for k in sock.recv_sizes) and any(k == 1 for k in sock.recv_sizes):
        ctx.probe('stream delivered in uneven fragments')
    if not all(legal):
        ctx.probe('frame with unsupported version / illegal code in the stream')
    # what the host wrote on the wire (uplink)
    sent = bytes(sock.sent)
    frames = []
    i = 0
    while i + 2 <= len(sent):
        ln = struct.unpack('<H', sent[i:i + 2])[0]
        frames.append(sent[i + 2:i + 2 + ln])
        i += 2 + ln
    if i != len(sent):
        ctx.violation('1', 'uplink-stream-not-framed', 'trailing %d bytes do not form a frame' % (len(sent) - i))
    def crtp_frame(u):
        return bytes([(3 << 3) | 1, 3]) + bytes([u['header'] | 0x0C]) + bytes(u['data'])

    def merge_of(frames, per_thread):
        """True if `frames` is an interleaving of the per-thread sequences (each thread's order preserved)."""
        keys = sorted(per_thread)
        seqs = [per_thread[k] for k in keys]
        if len(frames) != sum(len(q) for q in seqs):
            return False
        seen = set()
        stack = [tuple(0 for _ in seqs)]
        while stack:
            pos = stack.pop()
            if pos in seen:
                continue
            seen.add(pos)
            i = sum(pos)
            if i == len(frames):
                return True
            for k, q in enumerate(seqs):
                if pos[k] < len(q) and q[pos[k]] == frames[i]:
                    stack.append(pos[:k] + (pos[k] + 1,) + pos[k + 1:])
        return False

    if mode == 'cpx':
        per = {}
        for u in plan['up']:
            per.setdefault(u.get('thread', 0), []).append(cpx_frame(u))
        exp_up = [cpx_frame(u) for u in plan['up']]
        if (len(per) <= 1 and frames != exp_up) or (len(per) > 1 and not merge_of(frames, per)):
            ctx.violation('1', 'uplink-encoding-differs', 'frames on the wire %r..., expected %r...%s'
                          % ([f.hex() for f in frames[:3]], [f.hex() for f in exp_up[:3]],
                             ' (any interleaving of %d sender threads)' % len(per) if len(per) > 1 else ''))
        for fn in got:
            exp = [(p['src'], p['dst'], p['fn'], bool(p['last']), bytes(p['data']), len(p['data']))
                   for p, ok in zip(down, legal) if ok and p['fn'] == fn]
            if got[fn] != exp:
                kind = 'duplicated' if len(got[fn]) > len(exp) else 'lost' if len(got[fn]) < len(exp) else 'differs'
                ctx.violation('2-3', 'function-queue-%s' % kind, 'function %d: received %d packets %r..., peer sent %d %r...'
                              % (fn, len(got[fn]), got[fn][:2], len(exp), exp[:2]))
        left = {fn: n for fn, n in st.get('unconsumed', {}).items() if n}
        if left:
            ctx.violation('3', 'packet-in-wrong-or-extra-queue', 'unconsumed packets per function queue: %r' % (left,))
    else:
        # first frame: the SYSTEM packet announcing the host, then the CRTP packets
        hello = bytes([(3 << 3) | 1, 1]) + bytes([0x21, 0x01])
        per = {}
        for u in plan['up']:
            per.setdefault(u.get('thread', 0), []).append(crtp_frame(u) if u.get('via', 'crtp') == 'crtp' else cpx_frame(u))
        exp_up = [hello] + [crtp_frame(u) if u.get('via', 'crtp') == 'crtp' else cpx_frame(u) for u in plan['up']]
        if (len(per) <= 1 and frames != exp_up) or \
                (len(per) > 1 and not (frames[:1] == [hello] and merge_of(frames[1:], per))):
            ctx.violation('4', 'crtp-uplink-differs', 'frames on the wire %r..., expected %r...%s'
                          % ([f.hex() for f in frames[:3]], [f.hex() for f in exp_up[:3]],
                             ' (any interleaving of %d sender threads)' % len(per) if len(per) > 1 else ''))
        exp = [(p['data'][0] | 0x0C, bytes(p['data'][1:])) for p, ok in zip(down, legal)
               if ok and p['fn'] == 3 and len(p['data']) > 0]
        if crtp_rx != exp:
            ctx.violation('4', 'crtp-downlink-differs', 'receive_packet returned %d packets %r..., peer tunnelled %d %r...'
                          % (len(crtp_rx), crtp_rx[:2], len(exp), exp[:2]))
        if st.get('errs'):
            ctx.violation('4', 'link-error-from-tunnel', '%r' % (st['errs'][0][:200],))
