"""
C06 — memory reads and writes are exact, complete and never wedge the subsystem.

Real: Memory, _ReadRequest, _WriteRequest, memory elements, dispatcher, retry timers (1 s),
Crazyflie.send_packet.  Stub: SimLink, SimCF memories.
"""
import random

from simkit import primitives as P
from simkit.harness import H, cflib_site
from world import gen as wgen
from . import common

ID = 'C06'
BUDGET = {'quick': 50, 'thorough': 900}
MINIMISE_OPS = True

EVIDENCE = {
    'rule': 'Each run connects a Crazyflie to a firmware with 1-3 memories; one user thread per memory issues reads and '
            '(queued) writes with lengths from {0,1,19,20,21,24,25,26,40,50,75,...} at arbitrary addresses, optionally '
            'with flush_queue / progress_cb; replies are duplicated, delayed past the 1 s retry timer (natural resend -> '
            'two replies), carry an error status, or the link drops / is closed at a seeded instant; afterwards (optionally '
            'after a reconnect) a probe write+read per memory must complete.',
    'directed': 'link drop after every k-th memory reply (k=0..12) of a fixed 3-chunk write + 3-chunk read, and a '
                'duplicated reply at every position',
    'real': ['Memory', '_ReadRequest', '_WriteRequest', 'MemoryElement/MemoryTester', 'Crazyflie.send_packet and retry timers',
             '_IncomingPacketHandler'],
    'stub': ['SimLink', 'SimCF memory service (info, read, write with status)'],
    'assumptions': [
        'reads and writes on one memory are not outstanding at the same time (one user thread per memory waits for its '
        'reads), so "the bytes the device holds" is unambiguous',
        'a failure notification carries no claim about memory content: bytes of failed / superseded / interrupted writes '
        'are treated as unknown (old or new) afterwards',
        'device memory equality after a successful write is judged at quiescence (a duplicated acknowledgement can make '
        'the library report success for a chunk whose request is still in flight on a FIFO link)',
        'requests and replies are not lost (only duplicated, delayed, answered with an error, or cut by a link drop)',
        'duplicated/delayed acknowledgements are not combined with error statuses or link drops in one run: the wire '
        'protocol has no sequence numbers, so a duplicated acknowledgement of an earlier chunk at the same address is '
        'indistinguishable from the answer to the current chunk (a limit of the protocol, not of the library)',
        'a write issued before a flush_queue call on the same memory may or may not be superseded (the harness cannot '
        'observe the library queue atomically): it is allowed zero or one notification and its bytes are unknown afterwards',
    ],
}

LENGTHS = [0, 1, 2, 19, 20, 21, 24, 25, 26, 39, 40, 41, 49, 50, 51, 60, 75, 100]
BOUND = 30.0


def gen(seed):
    rng = random.Random(H(seed, 'plan'))
    knobs = common.sched_knobs(rng)
    knobs['needs_resending'] = rng.random() < 0.7
    knobs['lat'] = rng.choice([(0.0005, 0.003), (0.0, 0.0), (0.002, 0.02)])
    mode = rng.choice(['clean', 'clean', 'dup', 'delay', 'err', 'drop', 'close', 'mix', 'errdrop'])
    rates = {}
    if mode in ('dup', 'mix'):
        rates['down_dup'] = rng.choice([0.1, 0.4, 1.0])
    if mode in ('delay', 'mix') and knobs['needs_resending']:
        rates['down_delay'] = rng.choice([0.1, 0.3])
    if mode in ('err', 'errdrop'):
        rates['mem_err'] = rng.choice([0.05, 0.2])
    knobs['rates'] = rates
    nmem = rng.choice([1, 2, 3])
    mems = [[rng.choice([0x18, 0x15]), rng.choice([64, 200, 300]), None] for _ in range(nmem)]
    dev = wgen.gen_device(rng, n_log=1, n_param=1, version=rng.choice([10, 3]), mems=mems)
    ops = []
    used_addr = [set() for _ in range(nmem)]
    taint = [False] * nmem
    for mi in range(nmem):
        size = mems[mi][1]
        for _ in range(rng.choice([1, 2, 4, 6])):
            ln = min(rng.choice(LENGTHS), size)
            addr = rng.choice([0, 0, size - ln, rng.randint(0, size - ln)])
            if rng.random() < 0.55:
                nq = rng.choice([1, 1, 2, 3])
                ws = []
                will_flush = [rng.random() < 0.15 for _q in range(nq)]
                for _q in range(nq):
                    l2 = min(rng.choice(LENGTHS), size)
                    a2 = rng.choice([addr, rng.randint(0, size - l2)])
                    a2 = min(a2, size - l2)
                    # write addresses of a batch with a flush (and of everything after it on this memory) are unique,
                    # so that a notification (memory, address) identifies its request
                    if any(will_flush) or taint[mi]:
                        tries = 0
                        while a2 in used_addr[mi] and tries < 400:
                            a2 = (a2 + 1) % (size - l2 + 1)
                            tries += 1
                        taint[mi] = True
                        if a2 in used_addr[mi]:
                            continue
                    used_addr[mi].add(a2)
                    ws.append({'addr': a2, 'data': bytes(rng.randrange(256) for _ in range(l2)).hex(),
                               'flush': will_flush[_q], 'progress': rng.random() < 0.3})
                if ws:
                    ops.append({'mem': mi, 'op': 'write', 'writes': ws})
            else:
                ops.append({'mem': mi, 'op': 'read', 'addr': addr, 'len': ln})
    cut = None
    if mode in ('drop', 'close', 'errdrop') and rng.random() < 0.9:
        cut = {'kind': 'close' if mode == 'close' else rng.choice(['drop-driver', 'drop-sender', 'close']),
               'at': round(rng.choice([rng.uniform(0, 0.05), rng.uniform(0, 0.5), rng.uniform(0, 2.5)]), 5)}
    return {'seed': seed, 'scenario': 'mem-' + mode, 'knobs': knobs, 'device': dev, 'ops': ops,
            'cut': cut, 'reconnect': rng.random() < 0.8}


def directed(tier):
    plans = []
    rng = random.Random(606)
    dev = wgen.gen_device(rng, n_log=1, n_param=1, version=10, mems=[[0x18, 128, None]])
    data = bytes(range(60)).hex()
    ops = [{'mem': 0, 'op': 'write', 'writes': [{'addr': 5, 'data': data, 'flush': False, 'progress': False}]},
           {'mem': 0, 'op': 'read', 'addr': 3, 'len': 55}]
    n = 0
    for k in range(0, 13 if tier == 'quick' else 30):
        for kind in ('drop-driver', 'drop-sender'):
            n += 1
            plans.append({'seed': 930000 + n, 'scenario': 'directed-drop-after-k', 'device': dev, 'ops': ops,
                          'knobs': {'line_mean': 0, 'p_stall': 0.0, 'needs_resending': True, 'lat': (0.001, 0.001),
                                    'rates': {}},
                          'cut': {'kind': kind, 'after_mem_replies': k}, 'reconnect': True})
    for k in range(0, 7 if tier == 'quick' else 16):
        n += 1
        plans.append({'seed': 930000 + n, 'scenario': 'directed-dup-kth-reply', 'device': dev, 'ops': ops,
                      'knobs': {'line_mean': 0, 'p_stall': 0.0, 'needs_resending': True, 'lat': (0.001, 0.001), 'rates': {}},
                      'faults': [['down_dup', k, 1]], 'cut': None, 'reconnect': False})
    return plans


class Req:
    def __init__(self, kind, mem_index, addr, data=None, length=0, flush=False):
        self.kind, self.mem_index, self.addr = kind, mem_index, addr
        self.data, self.length, self.flush = data, length, flush
        self.done = []          # list of ('ok'|'fail', payload, t)
        self.superseded = False
        self.issued = False
        self.accepted = True
        self.session = None
        self.offline = False    # issued when the link was already gone


def execute(ctx):
    from cflib.crazyflie import Crazyflie
    plan = ctx.plan
    sim = ctx.sim
    w, devs = common.make_world(ctx, {'cf': plan['device']})
    w.can_inject = True
    dev = devs['cf']
    def on_close(link):
        cf = st.get('cf')
        if cf is None:
            return
        ts = cf.incoming._ts
        ww = ts.wait_what
        idle = ts.state in ('new', 'done') or (ts.state == 'blocked' and (
            ww == 'simlink-inbox' or (isinstance(ww, tuple) and ww[0] == 'sleep' and ww[1] == 1)))
        if not idle and not st.get('probing'):
            st['raced'] = True
            ctx.notes['raced'] = True
            ctx.probe('link torn down while the dispatcher was mid-dispatch')
        tick[0] += 1
        st['td_start'] = tick[0]
    w.on_link_close = on_close
    tick = [0]
    dispatch_begins = []

    def on_dispatch_begin(pk):
        tick[0] += 1
        dispatch_begins.append(tick[0])

    def on_teardown_end(*a):
        # the dispatcher also races the tear-down when it takes a packet that was already queued after the driver was
        # closed but before the library forgot the link and ran its disconnect handlers
        tick[0] += 1
        t0 = st.get('td_start')
        if t0 is not None and not st.get('probing') and any(t0 < b < tick[0] for b in dispatch_begins):
            if not st.get('raced'):
                ctx.probe('dispatch began between driver close and the end of the disconnect handlers')
            st['raced'] = True
            ctx.notes['raced'] = True
    w.dupable = lambda header, data: ((header >> 4) & 0xF) == 4 and (header & 3) in (1, 2)
    w.delay_range = (1.05, 1.6)
    dev.mem_fault = lambda kind, mid, addr: (5 if ctx.faults.flag('mem_err') else 0)
    ctx.notes['nontrivial'] = plan['scenario'].startswith('directed')
    nmem = len(dev.mems)
    model = [bytearray(m.data) for m in dev.mems]
    unknown = [bytearray(len(m.data)) for m in dev.mems]
    reqs = []                    # all requests in issue order
    outstanding = {'r': {}, 'w': {}}    # mem id -> list of Req (FIFO)
    st = {'mem_replies': 0}
    cut = plan.get('cut')

    def on_note(kind):
        pass

    def attach(cf):
        def rd_ok(mem, addr, data):
            complete('r', mem.id, addr, 'ok', bytes(data))

        def rd_fail(mem, addr, data):
            complete('r', mem.id, addr, 'fail', None)

        def wr_ok(mem, addr):
            complete('w', mem.id, addr, 'ok', None)

        def wr_fail(mem, addr):
            complete('w', mem.id, addr, 'fail', None)
        if not st.get('teardown_probe_installed'):
            cf.packet_received.callbacks.insert(0, on_dispatch_begin)
            cf.disconnected.add_callback(on_teardown_end)
            st['teardown_probe_installed'] = True
        cf.mem.mem_read_cb.add_callback(rd_ok)
        cf.mem.mem_read_failed_cb.add_callback(rd_fail)
        cf.mem.mem_write_cb.add_callback(wr_ok)
        cf.mem.mem_write_failed_cb.add_callback(wr_fail)

    dbg = []
    ctx.notes['hist'] = dbg if __import__('os').environ.get('VERIF_DEBUG') else []

    def complete(kind, mid, addr, result, payload):
        dbg.append('%.4f notify %s mem %d addr %d %s' % (sim.now, kind, mid, addr, result))
        ctx.obs('notify', kind, mid, addr, result)
        lst = outstanding[kind].get(mid, [])
        for r in lst:
            if r.addr == addr and not r.done:
                r.done.append((result, payload, sim.now))
                lst.remove(r)
                if kind == 'w':
                    a, n = r.addr, len(r.data)
                    if result == 'ok' and not r.superseded and not any(
                            o.superseded for o in lst if o.addr == r.addr):
                        model[mid][a:a + n] = r.data
                        for i in range(a, a + n):
                            unknown[mid][i] = 0
                        # bytes that a later queued write (still in flight) also covers stay unknown
                        for o in lst:
                            for i in range(o.addr, o.addr + len(o.data)):
                                unknown[mid][i] = 1
                    else:
                        for i in range(a, a + n):
                            unknown[mid][i] = 1
                else:
                    if result == 'ok':
                        exp = model[mid][r.addr:r.addr + r.length]
                        msk = unknown[mid][r.addr:r.addr + r.length]
                        if len(payload) != r.length or any(
                                (not m) and x != y for x, y, m in zip(payload, exp, msk)):
                            ctx.violation('1', 'read-returned-wrong-bytes' + dup_tag(ctx),
                                          'read mem %d addr %d len %d returned %s, device holds %s'
                                          % (mid, r.addr, r.length, payload.hex(), bytes(exp).hex()))
                return
        if st.get('probing') or st.get('handshake'):
            return
        # a notification nobody asked for (or a second one)
        for r in reqs:
            if r.kind == kind[0] and r.mem_index == mid and r.addr == addr and r.done and r.session == st.get('session'):
                race = ' [the link was torn down while the dispatcher was completing a request]' \
                    if st.get('raced') else ''
                ctx.violation('3', 'second-notification' + race,
                              '%s mem %d addr %d notified again (%s)' % (kind, mid, addr, result))
                return
        ctx.violation('3', 'unrequested-notification', '%s mem %d addr %d result %s' % (kind, mid, addr, result))

    def user(cf, mi, myops):
        mems = {m.id: m for m in cf.mem.mems}
        mem = mems.get(mi)
        if mem is None:
            return
        for op in myops:
            if st.get('cut_done') or st.get('disc_seen'):
                return
            if op['op'] == 'read':
                r = Req('r', mi, op['addr'], length=op['len'])
                r.session = st['session']
                reqs.append(r)
                outstanding['r'].setdefault(mi, []).append(r)
                r.issued = True
                r.offline = cf.link is None or st.get('td_start') is not None     # (driver close has begun)
                dbg.append('%.4f issue r mem %d addr %d len %d' % (sim.now, mi, op['addr'], op['len']))
                acc = cf.mem.read(mem, op['addr'], op['len'])
                if st.get('td_start') is not None:
                    r.offline = True         # the call overlapped the tear-down of the link
                if acc is False:
                    r.accepted = False
                    outstanding['r'][mi].remove(r)
                    continue
                common.wait_until(sim, lambda: r.done or st.get('cut_done'), BOUND, 0.002)
            else:
                batch = []
                for wq in op['writes']:
                    data = bytes.fromhex(wq['data'])
                    r = Req('w', mi, wq['addr'], data=data, flush=wq['flush'])
                    r.session = st['session']
                    reqs.append(r)
                    if wq['flush']:
                        # everything still queued may be explicitly superseded
                        q = outstanding['w'].get(mi, [])
                        for old in q:
                            old.superseded = True
                            a, n = old.addr, len(old.data)
                            for i in range(a, a + n):
                                unknown[mi][i] = 1
                        ctx.probe('flush_queue with writes queued' if len(q) > 1 else 'flush_queue')
                    outstanding['w'].setdefault(mi, []).append(r)
                    a, n = r.addr, len(data)
                    for i in range(a, a + n):
                        unknown[mi][i] = 1          # in flight: old or new
                    r.issued = True
                    r.offline = cf.link is None or st.get('td_start') is not None     # (driver close has begun)
                    dbg.append('%.4f issue w mem %d addr %d len %d flush %s' % (sim.now, mi, wq['addr'], len(data),
                                                                              wq['flush']))
                    prog = (lambda msg, pct: None) if wq['progress'] else None
                    cf.mem.write(mem, wq['addr'], list(data), flush_queue=wq['flush'], progress_cb=prog)
                    if st.get('td_start') is not None:
                        r.offline = True     # the call overlapped the tear-down of the link
                    batch.append(r)
                common.wait_until(sim, lambda: all(b.done or b.superseded for b in batch) or st.get('cut_done'),
                                  BOUND, 0.002)

    def scenario():
        cf = Crazyflie()
        st['cf'] = cf
        attach(cf)
        got = {}
        cf.fully_connected.add_callback(lambda uri: got.__setitem__('full', sim.now))
        cf.disconnected.add_callback(lambda uri: got.__setitem__('disc', sim.now))
        cf.disconnected.add_callback(lambda uri: st.__setitem__('disc_seen', True))
        st['handshake'] = True
        st['session'] = 0
        cf.open_link('sim://cf')
        if not common.wait_until(sim, lambda: 'full' in got, 120.0, 0.01):
            ctx.violation('0', 'never-fully-connected', 'handshake did not finish')
            return
        st['handshake'] = False
        link0 = cf.link
        base = link0.n_down
        threads = []
        for mi in range(nmem):
            myops = [o for o in plan['ops'] if o['mem'] == mi]
            t = P.SimThread(target=user, args=(cf, mi, myops), name='user-mem-%d' % mi)
            t.daemon = True
            t.start()
            threads.append(t)

        def do_cut():
            kind = cut['kind']
            ctx.probe('cut: %s with %d requests outstanding' % (
                kind, sum(len(v) for d in outstanding.values() for v in d.values())))
            if kind == 'close':
                cf.close_link()
            elif kind == 'drop-driver':
                link0.inject_failure('driver')
            else:
                link0.inject_failure('sender')
        if cut:
            if 'after_mem_replies' in cut:
                k = cut['after_mem_replies']
                common.wait_until(sim, lambda: count_mem_replies(w, 0) >= k or
                                  all(not t.is_alive() for t in threads), BOUND, 0.0005)
            else:
                P.sim_sleep(cut['at'])
            do_cut()
            # every outstanding request must be notified (failure) in bounded time
            ok = common.wait_until(sim, lambda: cf.link is None and all(
                r.done or r.superseded or not r.accepted for r in reqs if r.issued), BOUND, 0.01)
            st['cut_done'] = True
            if not ok:
                missing = [(r.kind, r.mem_index, r.addr) for r in reqs
                           if r.issued and r.accepted and not r.done and not r.superseded]
                if cf.link is not None:
                    ctx.violation('6', 'link-not-torn-down' + lock_tag(ctx), 'link still set %g s after %s' % (BOUND, cut['kind']))
                elif missing:
                    race = ' [the link was torn down while the dispatcher was completing a request]' \
                        if st.get('raced') else ''
                    ctx.violation('3', 'no-notification-after-disconnect (%s)%s' % (
                        missing[0][0], lock_tag(ctx) or offline_tag(reqs) or race),
                                  'requests never notified after %s: %s' % (cut['kind'], missing[:5]))
        for t in threads:
            t.join(BOUND * 3)
            if t.is_alive():
                ctx.violation('3', 'request-never-completed' + (lock_tag(ctx) or offline_tag(reqs)), 'user thread %s still waiting; outstanding %s' % (
                    t.name, [(r.kind, r.mem_index, r.addr) for r in reqs if r.issued and r.accepted and not r.done
                             and not r.superseded][:5]),
                    [(x['thread'], x['waiting_on'], x['stack'][-700:]) for x in sim.describe_threads()])
                return
        if not cut:
            missing = [(r.kind, r.mem_index, r.addr) for r in reqs
                       if r.issued and r.accepted and not r.done and not r.superseded]
            if missing:
                ctx.violation('3', 'request-never-completed', 'no notification for %s' % missing[:5])
        # quiescence, then clause 2 / 5 / 4 on the device side
        ctx.faults.rates = {}
        if ctx.faults.explicit is not None:
            ctx.faults.explicit = {}
        P.sim_sleep(3.5)
        check_device(ctx, dev, model, unknown, reqs)
        # clause 6: probe (optionally after reconnect)
        if cf.link is None:
            if not plan.get('reconnect'):
                residue(ctx, cf, reqs)
                return
            got.clear()
            st['handshake'] = True
            st['session'] = 1
            for d in outstanding.values():
                d.clear()
            st.pop('td_start', None)
            cf.open_link('sim://cf')
            if not common.wait_until(sim, lambda: 'full' in got, 120.0, 0.01):
                ctx.violation('6', 'reconnect-failed' + lock_tag(ctx), 'could not reconnect after %s' % (cut,))
                return
            st['handshake'] = False
        st['probing'] = True
        probe(ctx, cf, dev, nmem, reqs)
        residue(ctx, cf, reqs)
        ok, _, _ = ctx.bounded(cf.close_link, BOUND, 'final-close')
        if not ok:
            ctx.violation('6', 'final-close_link-hang' + lock_tag(ctx), 'close_link after the probe did not return (lock left behind?)',
                          ctx.stack_of('bounded:final-close'))
        P.sim_sleep(0.5)

    verdict = sim.run(scenario)
    if verdict[0] in ('deadlock', 'timeout', 'livelock'):
        from simkit.harness import hang_signature
        sg, msg = hang_signature(verdict)
        tag = ''
        for t in verdict[1] or []:
            if '_call_all_failed_callbacks' in t.get('stack', '') and 'in send_packet' in t.get('stack', ''):
                tag = ' [link error reported from inside send_packet: disconnect handling runs on the sending ' \
                      'thread with the send lock held]'
        ctx.violation('6', sg + tag, msg, verdict[1])
    for name, exc, tb in sim.thread_deaths:
        ctx.violation('7', 'thread-died %s @%s' % (exc.split(':')[0], cflib_site(tb)),
                      'library thread %s died: %s' % (name, exc), tb)
    collapse_known_histories(ctx)
    if any(len(o[5]) > 25 for o in dev.mem_ops if o[2] == 'w'):
        ctx.violation('5', 'write-chunk-too-large', 'a write packet carried more than 25 bytes')
    if any(o[5] > 20 for o in dev.mem_ops if o[2] == 'r'):
        ctx.violation('5', 'read-chunk-too-large', 'a read request asked for more than 20 bytes')


RACE_TAG = ' [the link was torn down while the dispatcher was completing a request]'
FAMILY_TAGS = (' [link error reported from inside send_packet: disconnect handling runs on the sending thread with the send '
               'lock held]', ' [request issued after the link was lost]', RACE_TAG,
               ' [duplicated or late reply taken for the answer to a newer request at the same address: the wire '
               'protocol has no sequence numbers]')


def collapse_known_histories(ctx):
    """One signature per known history family: what exactly goes wrong in such a history (which notification is lost,
    which record or lock stays behind, how the probe fails) follows from the history, so the symptom moves into the
    message.  Data corruption (clauses 1, 2 outside the duplicate-reply family), protocol violations and thread deaths keep
    their own signatures."""
    raced = ctx.notes.get('raced')
    for v in ctx.violations:
        sig = v['sig']
        if raced and v['clause'] in ('3', '6') and not sig.endswith(']'):
            sig = sig + RACE_TAG       # follow-up symptoms of the same tear-down race (records left behind, probe fails)
        for tag in FAMILY_TAGS:
            if sig.endswith(tag):
                v['msg'] = '%s: %s' % (sig[:-len(tag)], v['msg'])
                v['sig'] = 'C06/known-history' + tag
                break
    seen = set()
    out = []
    for v in ctx.violations:
        if v['sig'].startswith('C06/known-history'):
            if v['sig'] in seen:
                continue
            seen.add(v['sig'])
        out.append(v)
    ctx.violations[:] = out


def dup_tag(ctx):
    fc = ctx.faults.fired_counts()
    if fc.get('down_dup') or fc.get('down_delay'):
        return ' [duplicated or late reply taken for the answer to a newer request at the same address: the wire ' \
               'protocol has no sequence numbers]'
    return ''


def offline_tag(reqs):
    if any(r.offline and r.accepted and not r.done and not r.superseded for r in reqs):
        return ' [request issued after the link was lost]'
    return ''


def lock_tag(ctx):
    """Is some thread waiting for Memory's write lock while it holds it itself (link error reported from inside
    send_packet, i.e. on the sending thread, while Memory.write/_handle_chan_write hold the lock)?"""
    import sys
    import traceback
    frames = sys._current_frames()
    for t in ctx.sim.threads:
        if t.state == 'done':
            continue
        f = frames.get(t.os_ident)
        if f is None:
            continue
        names = [fs.name for fs in traceback.extract_stack(f)]
        if '_call_all_failed_callbacks' in names and 'send_packet' in names:
            return ' [link error reported from inside send_packet: disconnect handling runs on the sending thread ' \
                   'with the send lock held]'
    return ''


def count_mem_replies(w, session):
    return sum(1 for rec in w.wire if rec[1] == session and rec[2] == 'down' and ((rec[3] >> 4) & 0xF) == 4
               and (rec[3] & 3) in (1, 2))


def check_device(ctx, dev, model, unknown, reqs):
    for mid, m in enumerate(dev.mems):
        for i in range(m.size):
            if not unknown[mid][i] and m.data[i] != model[mid][i]:
                ctx.violation('2', 'device-memory-differs' + dup_tag(ctx), 'mem %d byte %d: device %d, expected %d (after the writes that '
                              'were reported successful)' % (mid, i, m.data[i], model[mid][i]))
                return
    # every device write must be explained by a request chunk, queued writes in order
    last_idx = {}
    wreqs = [r for r in reqs if r.kind == 'w']
    for (t, session, kind, mid, addr, payload, status) in dev.mem_ops:
        if kind != 'w' or status != 0:
            continue
        expl = None
        for i, r in enumerate(wreqs):
            if r.mem_index == mid and r.session == session and r.addr <= addr and \
                    addr + len(payload) <= r.addr + len(r.data) and \
                    r.data[addr - r.addr:addr - r.addr + len(payload)] == payload:
                if i >= last_idx.get((session, mid), -1):
                    expl = i
                    break
        if expl is None:
            cand = [i for i, r in enumerate(wreqs) if r.mem_index == mid and r.session == session and r.addr <= addr and
                    addr + len(payload) <= r.addr + len(r.data) and
                    r.data[addr - r.addr:addr - r.addr + len(payload)] == payload]
            if cand:
                # (with late acknowledgements a chunk of an earlier, completed write can be retransmitted by the retry timer
                # after a later queued write has started: same family as the duplicate answers)
                ctx.violation('4', 'queued-writes-out-of-order' + dup_tag(ctx), 'mem %d: chunk at %d belongs to request #%d but request '
                              '#%d was already being written' % (mid, addr, cand[0], last_idx[(session, mid)]))
            else:
                ctx.violation('2', 'device-write-not-requested', 'mem %d addr %d data %s was written but never requested'
                              % (mid, addr, payload.hex()))
            return
        last_idx[(session, mid)] = expl


def probe(ctx, cf, dev, nmem, reqs=()):
    sim = ctx.sim
    otag = lock_tag(ctx) or offline_tag(reqs)
    mems = {m.id: m for m in cf.mem.mems}
    for mi in range(nmem):
        mem = mems.get(mi)
        if mem is None:
            ctx.violation('6', 'memory-missing-after-reconnect', 'memory %d not listed' % mi)
            return
        res = {}
        wcb = lambda m, a, mi=mi: res.__setitem__('w', 'ok') if m.id == mi else None       # noqa: E731
        wfb = lambda m, a, mi=mi: res.__setitem__('w', 'fail') if m.id == mi else None     # noqa: E731
        rcb = lambda m, a, d, mi=mi: res.__setitem__('r', bytes(d)) if m.id == mi else None    # noqa: E731
        rfb = lambda m, a, d, mi=mi: res.__setitem__('r', 'fail') if m.id == mi else None      # noqa: E731
        cf.mem.mem_write_cb.add_callback(wcb)
        cf.mem.mem_write_failed_cb.add_callback(wfb)
        cf.mem.mem_read_cb.add_callback(rcb)
        cf.mem.mem_read_failed_cb.add_callback(rfb)
        data = bytes((0xA0 + mi + i) & 0xFF for i in range(30))
        ok, _, exc = ctx.bounded(lambda: cf.mem.write(mem, 1, list(data)), BOUND, 'probe-write')
        if not ok:
            ctx.violation('6', 'probe-write-call-blocked' + otag, 'Memory.write blocked for %g s (lock left behind?)' % BOUND,
                          ctx.stack_of('bounded:probe-write'))
            return
        if exc is not None:
            ctx.violation('6', 'probe-write-raised %s' % type(exc).__name__, 'Memory.write raised %r' % (exc,))
            return
        if not common.wait_until(sim, lambda: 'w' in res, BOUND, 0.01):
            ctx.violation('6', 'probe-write-never-completed' + otag, 'probe write on mem %d not completed within %g s; '
                          'pending write records %r' % (mi, BOUND, {k: len(v) for k, v in cf.mem._write_requests.items()}))
            return
        if res['w'] != 'ok':
            ctx.violation('6', 'probe-write-failed', 'fault-free probe write failed')
            return
        acc = cf.mem.read(mem, 0, 32)
        if acc is False:
            ctx.violation('6', 'probe-read-refused' + otag, 'Memory.read refused: a read record for mem %d was left behind' % mi)
            return
        if not common.wait_until(sim, lambda: 'r' in res, BOUND, 0.01):
            ctx.violation('6', 'probe-read-never-completed', 'probe read on mem %d not completed within %g s' % (mi, BOUND))
            return
        if res['r'] == 'fail' or res['r'][1:31] != data or res['r'] != bytes(dev.mems[mi].data[0:32]):
            ctx.violation('6', 'probe-read-wrong', 'probe read returned %r' % (res['r'],))
            return
        for c, cb in ((cf.mem.mem_write_cb, wcb), (cf.mem.mem_write_failed_cb, wfb), (cf.mem.mem_read_cb, rcb),
                      (cf.mem.mem_read_failed_cb, rfb)):
            c.remove_callback(cb)


def residue(ctx, cf, reqs=()):
    otag = lock_tag(ctx) or offline_tag(reqs)
    if cf.mem._write_requests_lock.locked():
        ctx.violation('6', 'write-lock-left-held' + lock_tag(ctx), '_write_requests_lock is still held at quiescence')
    pend_r = dict(cf.mem._read_requests)
    pend_w = {k: v for k, v in cf.mem._write_requests.items() if v}
    if pend_r or pend_w:
        ctx.violation('6', 'pending-record-left-behind' + otag, 'read records %r, write records %r'
                      % (sorted(pend_r), {k: len(v) for k, v in pend_w.items()}))
