"""
C01, multi-link variant: several RadioDriver links share one Crazyradio dongle (RadioManager / _SharedRadio thread /
_SharedRadioInstance response queues), each to its own ESB+safelink peer on its own (channel, rate, address).

The per-link oracle is the single-link one (c01.oracle) evaluated on the transfers the dongle made while tuned to that
link's peer; on top of it:
  * isolation: a frame accepted by link A never reaches the peer of link B, and a packet queued by peer B never comes out
    of link A's receive call;
  * independence: a link whose peer goes out of range fails at its own threshold, the others keep delivering;
  * life-cycle: closing one link (or closing and re-opening it, or closing the last one so that the dongle is released and
    re-acquired) does not disturb the others.
"""
import random

from simkit import primitives as P
from simkit.harness import H, cflib_site
from world import radio as wradio
from . import common

RATE_CODE = {'250K': 0, '1M': 1, '2M': 2}


def gen_links(rng):
    """2-4 links with distinct radio settings (sharing channel or address pairwise, never all three fields)."""
    n = rng.choice([2, 2, 3, 4])
    links, seen = [], set()
    base_ch = rng.randrange(126)
    base_addr = ''.join(rng.choice('0123456789ABCDEF') for _ in range(10))
    while len(links) < n:
        style = rng.choice(['same-channel', 'same-address', 'free'])
        ch = base_ch if style == 'same-channel' else rng.randrange(126)
        addr = base_addr if style == 'same-address' else ''.join(rng.choice('0123456789ABCDEF') for _ in range(10))
        rate = rng.choice(['250K', '1M', '2M'])
        key = (ch, rate, addr)
        if key in seen:
            continue
        seen.add(key)
        nup = rng.choice([0, 1, 5, 20, 40])
        ndown = rng.choice([0, 1, 5, 20, 40])
        ops = []
        for i in range(nup):
            ops.append(['up', rng.randrange(2), round(rng.uniform(0, 0.3), 4), rng.randrange(16), rng.randrange(4),
                        rng.randrange(0, 26)])
        for i in range(ndown):
            ops.append(['down', round(rng.uniform(0, 0.3), 4), rng.randrange(15), rng.randrange(4), rng.randrange(0, 26)])
        links.append({'channel': ch, 'rate': rate, 'addr': addr, 'safelink': rng.random() < 0.9,
                      'open_at': round(rng.choice([0.0, 0.0, rng.uniform(0, 0.1)]), 4),
                      'ops': ops})
    return links


def gen(seed, rng, knobs):
    knobs.update({'retries': rng.choice([3, 5, 20, 100]), 'arc': rng.choice([0, 1, 3]),
                  'airtime': rng.choice([0.0005, 0.001]), 'rate_limit': None})
    mode = rng.choice(['clean', 'light', 'heavy', 'usb', 'one-dead', 'close-one', 'reopen-one', 'release-dongle',
                       'restart-same-object', 'restart-same-object'])
    rates = {}
    if mode in ('light', 'close-one', 'reopen-one', 'release-dongle', 'restart-same-object'):
        rates['air'] = [0.05, 0.05]
    elif mode == 'heavy':
        rates['air'] = [0.2, 0.2]
    elif mode == 'usb':
        rates['air'] = [0.05, 0.05]
        rates['usb_write_err'] = 0.02
        rates['usb_read_err'] = 0.02
    knobs['rates'] = rates
    links = gen_links(rng)
    ev = {}
    if mode == 'one-dead':
        ev = {'kind': 'dead', 'link': rng.randrange(len(links)), 'at': round(rng.uniform(0.0, 0.3), 4)}
    elif mode == 'close-one':
        ev = {'kind': 'close', 'link': rng.randrange(len(links)), 'at': round(rng.uniform(0.0, 0.4), 4)}
    elif mode == 'reopen-one':
        ev = {'kind': 'reopen', 'link': rng.randrange(len(links)), 'at': round(rng.uniform(0.0, 0.4), 4),
              'gap': rng.choice([0.0, 0.01, 0.1])}
    elif mode == 'release-dongle':
        ev = {'kind': 'release', 'gap': rng.choice([0.0, 0.01, 0.1])}
    elif mode == 'restart-same-object':
        # the Crazyflie reboots (possibly into a firmware / bootloader with another safelink capability) and the same
        # RadioDriver object is started again: pause() + restart(), or close() + connect()
        ev = {'kind': 'restart', 'link': rng.randrange(len(links)), 'via': rng.choice(['pause', 'close']),
              'safelink_after': rng.random() < 0.5, 'gap': rng.choice([0.0, 0.01, 0.1])}
        if rng.random() < 0.5:
            del links[1:]
            ev['link'] = 0
    return {'seed': seed, 'scenario': 'multi-' + mode, 'knobs': knobs, 'links': links, 'event': ev,
            'ops': [[i] for i in range(len(links))]}


def directed(tier):
    """Two links, every pair of (who is lost first, how) prefixes: cross-link outcome sequences with ARC 0."""
    import itertools
    plans = []
    n = 0
    k = 3 if tier == 'quick' else 5
    for prefix in itertools.product((0, 1, 2), repeat=k):
        n += 1
        plans.append({'seed': 975000 + n, 'scenario': 'multi-directed-outcome-prefix', 'knobs': {
            'line_mean': 0, 'p_stall': 0.0, 'retries': 100, 'arc': 0, 'airtime': 0.001, 'rate_limit': None, 'rates': {},
            'forced_from': 0.05, 'forced': list(prefix)},
            'links': [
                {'channel': 10, 'rate': '2M', 'addr': 'E7E7E7E7E7', 'safelink': True, 'open_at': 0.0,
                 'ops': [['up', 0, 0.05, 3, 0, 2], ['up', 0, 0.05, 3, 1, 3], ['down', 0.05, 5, 2, 4], ['down', 0.052, 2, 1, 2]]},
                {'channel': 10, 'rate': '2M', 'addr': 'E7E7E7E701', 'safelink': True, 'open_at': 0.0,
                 'ops': [['up', 0, 0.05, 3, 0, 2], ['up', 1, 0.051, 7, 0, 1], ['down', 0.05, 5, 2, 4], ['down', 0.054, 0, 0, 6]]}],
            'event': {}, 'ops': [[0], [1]]})
    return plans


class LinkRun:
    def __init__(self, ctx, air, dongle, idx, spec, rd, CRTPPacket):
        self.ctx, self.air, self.dongle, self.idx, self.spec = ctx, air, dongle, idx, spec
        self.rd, self.CRTPPacket = rd, CRTPPacket
        self.sim = ctx.sim
        address = tuple(bytes.fromhex('{:0>10}'.format(spec['addr'])))
        self.peer = wradio.NrfPeer(spec['channel'], RATE_CODE[spec['rate']], address, safelink=spec['safelink'])
        self.peer.deaf = False
        air.peers.append(self.peer)
        self.uri = 'radio://0/%d/%s/%s' % (spec['channel'], spec['rate'], spec['addr'])
        self.ups = [o for o in spec['ops'] if o[0] == 'up']
        self.downs = sorted([o for o in spec['ops'] if o[0] == 'down'], key=lambda o: o[1])
        self.sessions = []      # one record per open..close of this link
        self.cur = None
        self.next_up = {0: 0, 1: 0}
        self.threads = []
        self.stop_senders = False

    def n_results(self):
        return sum(1 for p in self.dongle.result_peer if p is self.peer)

    def payload(self, kind, i, ln):
        tag = bytes([(0xA0 if kind == 'up' else 0xB0) | self.idx, i & 0xFF, (i >> 8) & 0xFF])
        return (tag + bytes((i + j) & 0xFF for j in range(ln)))[:max(3, min(30, ln + 3))]

    def open(self):
        s = {'errors': [], 'order': [], 'accepted': [], 'received': [], 'st': {}, 'res_from': len(self.dongle.results),
             'rx_from': len(self.peer.rx), 'taken_from': len(self.peer.tx_taken)}
        drv = self.rd.RadioDriver()
        s['st']['drv'] = drv
        s['drv'] = drv
        sim, ctx = self.sim, self.ctx

        s['n_res_from'] = self.n_results()
        self.sink = s
        drv.connect(self.uri, None, self._err_cb)
        self._wrap_queue(drv)
        self._start_session(s, drv)
        return s

    def _err_cb(self, msg):
        s = self.sink
        s['errors'].append((self.sim.now, msg, self.n_results() - s['n_res_from']))
        self.ctx.obs('link-error', self.idx, msg[:30])

    def _wrap_queue(self, drv):
        q = drv.out_queue
        if getattr(q, '_verif_wrapped', False):
            return
        orig_put = q._put

        def _put(pk):
            self.sink['order'].append(bytes([pk.header]) + bytes(pk.data))
            return orig_put(pk)
        q._put = _put
        q._verif_wrapped = True

    def _start_session(self, s, drv):
        sim, ctx = self.sim, self.ctx
        s['stop_rx'] = False
        s['closing'] = False

        def receiver(s=s, drv=drv):
            while not s['stop_rx']:
                pk = drv.receive_packet(ctx.work.choice([0, 0.01, 0.05]) if not s['closing'] else 0.01)
                if pk is None:
                    P.sim_sleep(0.003)
                    continue
                if pk.port == 15 and pk.channel == 3:
                    continue
                s['received'].append((sim.now, bytes([pk.header]) + bytes(pk.data)))
                ctx.obs('received', self.idx, len(s['received']))
        rx = P.SimThread(target=receiver, name='receiver-%d-%d' % (self.idx, len(self.sessions)))
        rx.daemon = True
        rx.start()
        s['rx'] = rx
        self.sessions.append(s)
        self.cur = s

    def _end_session(self, s):
        s['st']['needs_resending'] = getattr(s['drv'], 'needs_resending', None)
        s['closed'] = self.sim.now
        s['res_to'] = len(self.dongle.results)
        s['rx_to'] = len(self.peer.rx)
        s['taken_to'] = len(self.peer.tx_taken)
        self.cur = None

    def restart_same_object(self, via, safelink_after, gap):
        """Stop the radio thread of the open driver object, reboot the peer, start the same object again."""
        s = self.cur
        if s is None:
            return None
        drv = s['drv']
        s['closing'] = True
        common.wait_until(self.sim, lambda: not s.get('sending'), 3.0, 0.002)
        s['stop_rx'] = True
        ok, _, exc = self.ctx.bounded(drv.pause if via == 'pause' else drv.close, 30.0, 'driver.%s-%d' % (via, self.idx))
        if not ok:
            self.ctx.violation('6', 'close-hang', 'RadioDriver.%s() of link %d did not return' % (
                'pause' if via == 'pause' else 'close', self.idx), self.ctx.stack_of('bounded:driver.%s-%d' % (via, self.idx)))
            return None
        if exc is not None:
            self.ctx.violation('6', '%s-raised %s' % (via, type(exc).__name__), 'link %d: %r' % (self.idx, exc))
            return None
        s['rx'].join(1.0)
        while True:
            pk = drv.receive_packet(0) if drv.in_queue is not None else None
            if pk is None:
                break
            if not (pk.port == 15 and pk.channel == 3):
                s['received'].append((self.sim.now, bytes([pk.header]) + bytes(pk.data)))
        self._end_session(s)
        P.sim_sleep(gap)
        # the Crazyflie reboots: fresh ESB / safelink state, possibly another capability
        p = self.peer
        p.safelink_capable = safelink_after
        p.has_safelink = False
        p.curr_up = p.curr_down = 1
        p.last_pid = p.last_frame = None
        p.last_ack = b''
        del p.txq[:]
        s2 = {'errors': [], 'order': [], 'accepted': [], 'received': [], 'st': {'drv': drv}, 'drv': drv,
              'res_from': len(self.dongle.results), 'rx_from': len(p.rx), 'taken_from': len(p.tx_taken),
              'n_res_from': self.n_results(), 'restarted': via}
        self.sink = s2
        if via == 'pause':
            # whatever the application had queued before the pause goes out in the new session
            drv.restart()
        else:
            drv.connect(self.uri, None, self._err_cb)
        self._wrap_queue(drv)
        self._start_session(s2, drv)
        return s2

    def start_traffic(self, t0):
        sim, ctx = self.sim, self.ctx
        for di, o in enumerate(self.downs):
            port = o[2] if not (o[2] == 15 and o[3] == 3) else 14
            data = bytes([((port & 0xF) << 4) | 0x0C | (o[3] & 3)]) + self.payload('down', di, o[4])
            sim.at(t0 + o[1], lambda data=data: self.peer.queue_downlink(data))
        for ti in range(2):
            mine = sorted([(ui, o) for ui, o in enumerate(self.ups) if o[1] == ti], key=lambda x: x[1][2])
            if not mine:
                continue

            def sender(mine=mine):
                for ui, o in mine:
                    d = t0 + o[2] - sim.now
                    if d > 0:
                        P.sim_sleep(d)
                    # the application submits on the link that is currently open; waits while it is being re-opened
                    for _ in range(2000):
                        s = self.cur
                        if self.stop_senders:
                            return
                        if s is not None and not s['closing']:
                            break
                        P.sim_sleep(0.002)
                    else:
                        return
                    if s['errors'] or self.peer.deaf:
                        return
                    pk = self.CRTPPacket()
                    port = o[3] if not (o[3] == 15 and o[4] == 3) else 14
                    pk.set_header(port, o[4])
                    pk.data = self.payload('up', ui, o[5])
                    s['sending'] = s.get('sending', 0) + 1
                    try:
                        ok = s['drv'].send_packet(pk)
                    finally:
                        s['sending'] -= 1
                    if ok:
                        s['accepted'].append((sim.now, bytes([pk.header]) + bytes(pk.data)))
                        ctx.obs('accepted', self.idx, ui)
            t = P.SimThread(target=sender, name='app-%d-%d' % (self.idx, ti))
            t.daemon = True
            t.start()
            self.threads.append(t)

    def close(self, tag):
        s = self.cur
        if s is None or s.get('closed'):
            return
        s['closing'] = True
        # let a sender that is inside send_packet finish (the application does not close under its own feet)
        common.wait_until(self.sim, lambda: not s.get('sending'), 3.0, 0.002)
        s['stop_rx'] = True
        ok, _, exc = self.ctx.bounded(s['drv'].close, 30.0, 'driver.close-%d' % self.idx)
        if not ok:
            self.ctx.violation('6', 'close-hang', 'RadioDriver.close() of link %d did not return (%s)' % (self.idx, tag),
                               self.ctx.stack_of('bounded:driver.close-%d' % self.idx))
        elif exc is not None:
            self.ctx.violation('6', 'close-raised %s' % type(exc).__name__, 'RadioDriver.close() of link %d raised %r (%s)'
                               % (self.idx, exc, tag))
        self._end_session(s)


class _View:
    pass


def _safe(L):
    """Both sides have safelink in the current session: the peer saw the request and the host got its echo."""
    s = L.cur
    if s is None or not L.peer.has_safelink:
        return False
    probe = bytes([0xFF, 0x05, 0x01])
    for r, p in zip(L.dongle.results[s['res_from']:], L.dongle.result_peer[s['res_from']:]):
        if p is L.peer and r[3] == probe and r[1] and bytes(r[4]) == probe:
            return True
    return False


def execute(ctx):
    import cflib.crtp.radiodriver as rd
    from cflib.crtp.crtpstack import CRTPPacket
    from . import c01
    plan, sim, kn = ctx.plan, ctx.sim, ctx.knobs
    air = wradio.Air(sim, ctx.faults, airtime=kn.get('airtime', 0.001))
    dongle = wradio.FakeDongle(air)
    wradio.install([dongle])
    ctx.notes['nontrivial'] = True
    rd.set_retries_before_disconnect(kn['retries'])
    rd.set_retries(kn['arc'])
    links = [LinkRun(ctx, air, dongle, i, spec, rd, CRTPPacket) for i, spec in enumerate(plan['links'])
             if [i] in plan['ops']]
    ev = plan.get('event') or {}
    glob = {}

    def scenario():
        t0 = sim.now
        for L in sorted(links, key=lambda L: L.spec['open_at']):
            d = t0 + L.spec['open_at'] - sim.now
            if d > 0:
                P.sim_sleep(d)
            L.open()
            L.start_traffic(t0)
        if kn.get('forced') is not None:
            sim.at(t0 + kn['forced_from'], lambda: setattr(air, 'forced', list(kn['forced'])))
        target = next((L for L in links if L.idx == ev.get('link')), None)
        if ev.get('kind') == 'dead' and target is not None:
            def kill():
                target.peer.deaf = True
                target.dead_at = sim.now
            sim.at(t0 + ev['at'], kill)
        if ev.get('kind') in ('close', 'reopen') and target is not None:
            d = t0 + ev['at'] - sim.now
            if d > 0:
                P.sim_sleep(d)
            target.close('mid-run')
            ctx.probe('one link closed while others run')
            if ev['kind'] == 'reopen':
                P.sim_sleep(ev['gap'])
                target.open()
                ctx.probe('link re-opened while others run')
        if ev.get('kind') == 'dead' and target is not None:
            s = target.cur
            common.wait_until(sim, lambda: bool(s['errors']), ev['at'] + kn['retries'] * (kn['arc'] + 1) * air.airtime *
                              (2 * len(links) + 2) + 1.0, 0.01)
            # the application closes a failed link, the others go on
            target.stop_senders = True
            target.close('after-failure')
            ctx.probe('failed link closed while others run')
        for L in links:
            for t in L.threads:
                t.join(6.0)
        P.sim_sleep(0.3)
        # fault-free drain
        air.forced = None
        ctx.faults.rates = {}
        if ctx.faults.explicit is not None:
            ctx.faults.explicit = {}
        # (without safelink nothing is guaranteed: those links are not waited for)
        live = [L for L in links if L.cur is not None and not L.cur['errors'] and _safe(L)]

        def drained():
            for L in live:
                s = L.cur
                if len(L.peer.rx) - s['rx_from'] < len(s['order']) or not s['drv'].out_queue.empty():
                    return False
                if L.peer.txq:
                    return False
                if len(s['received']) < len(L.peer.tx_taken) - s['taken_from']:
                    return False
            return True
        glob['drain_ok'] = common.wait_until(sim, drained, 5.0 + 1.0 * len(links), 0.002)
        for L in live:
            L.cur['st']['drained'] = sim.now
        if ev.get('kind') == 'restart' and target is not None and target.cur is not None and not target.cur['errors']:
            s2 = target.restart_same_object(ev['via'], ev['safelink_after'], ev['gap'])
            if s2 is not None:
                ctx.probe('same driver object restarted (%s), safelink %s' % (
                    ev['via'], 'kept' if ev['safelink_after'] == target.spec['safelink'] else 'changed'))
                for k in range(3):
                    pk = CRTPPacket()
                    pk.set_header(3 + k, 1)
                    pk.data = target.payload('up', 50000 + k, 4 + k)
                    if s2['drv'].send_packet(pk):
                        s2['accepted'].append((sim.now, bytes([pk.header]) + bytes(pk.data)))
                    target.peer.queue_downlink(bytes([0x5D + 0x10 * k]) + target.payload('down', 50000 + k, 4))
                if _safe(target):
                    okr = common.wait_until(sim, lambda: len(target.peer.rx) - s2['rx_from'] >= len(s2['order']) and
                                            not target.peer.txq and len(s2['received']) >= len(target.peer.tx_taken) -
                                            s2['taken_from'] and s2['drv'].out_queue.empty(), 6.0, 0.002)
                    if okr:
                        s2['st']['drained'] = sim.now
                    else:
                        glob['drain_ok'] = False
                else:
                    P.sim_sleep(0.5)
        if ev.get('kind') == 'release':
            # close every link (the dongle is released by the last one), re-open them all, send one more packet each
            for L in links:
                L.close('release')
            P.sim_sleep(ev['gap'])
            if dongle.disposed or any(x[0] == 'reset' for x in dongle.usb_log):
                ctx.probe('dongle released by the last link')
            for L in links:
                if L.peer.deaf:
                    continue
                s = L.open()
                pk = CRTPPacket()
                pk.set_header(3, 1)
                pk.data = L.payload('up', 60000 + L.idx, 4)
                if s['drv'].send_packet(pk):
                    s['accepted'].append((sim.now, bytes([pk.header]) + bytes(pk.data)))
                L.peer.queue_downlink(bytes([0x5D]) + L.payload('down', 60000 + L.idx, 4))
            live2 = [L for L in links if L.cur is not None and _safe(L)]

            def drained2():
                for L in live2:
                    s = L.cur
                    if len(L.peer.rx) - s['rx_from'] < len(s['order']) or L.peer.txq or \
                            len(s['received']) < len(L.peer.tx_taken) - s['taken_from']:
                        return False
                return True
            ok2 = common.wait_until(sim, drained2, 6.0, 0.002)
            for L in live2:
                if ok2:
                    L.cur['st']['drained'] = sim.now
                else:
                    L.cur['st']['drained'] = sim.now
            ctx.probe('links re-opened after the dongle was released')
        for L in links:
            L.stop_senders = True
            L.close('end')
        P.sim_sleep(0.2)

    verdict = sim.run(scenario)
    if verdict[0] in ('deadlock', 'timeout', 'livelock'):
        from simkit.harness import hang_signature
        sg, msg = hang_signature(verdict)
        ctx.violation('6', sg, msg, verdict[1])
    for name, exc, tb in sim.thread_deaths:
        ctx.violation('6', 'thread-died %s @%s' % (exc.split(':')[0], cflib_site(tb)),
                      'library thread %s died: %s' % (name, exc), tb)
    # transfers while the dongle was tuned to no peer at all: wrong radio settings
    stray = [(r, p) for r, p in zip(dongle.results, dongle.result_peer) if p is None]
    if stray:
        ctx.violation('1', 'frame-sent-with-settings-of-no-link', '%d transfers went out on a (channel, rate, address) that '
                      'belongs to no open link, first frame %s' % (len(stray), stray[0][0][3].hex()))
    for L in links:
        # isolation (payload tags carry the link number)
        for t, fr in L.peer.rx:
            if len(fr) >= 2 and (fr[1] & 0xF0) == 0xA0 and (fr[1] & 0x0F) != L.idx:
                ctx.violation('1', 'uplink-delivered-to-other-crazyflie', 'frame %s submitted on link %d reached the peer '
                              'of link %d' % (fr.hex(), fr[1] & 0x0F, L.idx))
                break
        for s in L.sessions:
            for t, fr in s['received']:
                if len(fr) >= 2 and (fr[1] & 0xF0) == 0xB0 and (fr[1] & 0x0F) != L.idx:
                    ctx.violation('2', 'downlink-delivered-to-other-link', 'packet %s queued by the peer of link %d came '
                                  'out of link %d' % (fr.hex(), fr[1] & 0x0F, L.idx))
                    break
        # single-link oracle per session of this link
        for si, s in enumerate(L.sessions):
            res_to = s.get('res_to', len(dongle.results))
            dv = _View()
            dv.results = [r for r, p in zip(dongle.results[s['res_from']:res_to], dongle.result_peer[s['res_from']:res_to])
                          if p is L.peer]
            pv = _View()
            pv.rx = L.peer.rx[s['rx_from']:s.get('rx_to', len(L.peer.rx))]
            pv.tx_taken = L.peer.tx_taken[s['taken_from']:s.get('taken_to', len(L.peer.tx_taken))]
            st = dict(s['st'])
            if getattr(L, 'dead_at', None) is not None:
                st['dead'] = L.dead_at
            last = si == len(L.sessions) - 1
            if not last or not glob.get('drain_ok', False):
                st.pop('drained', None)
            lkn = dict(ctx.knobs)
            sub = _Ctx(ctx, lkn, L.idx)
            n_down = len(pv.tx_taken)
            c01.oracle(sub, plan, dv, pv, st, s['errors'], s['accepted'], s['received'], [None] * n_down, s['order'])
    if not glob.get('drain_ok', True):
        # liveness after the faults stopped (clause 3), unless a link failed (its queue is allowed to stay full)
        if not any(s['errors'] for L in links for s in L.sessions):
            ctx.violation('3', 'not-delivered-after-faults-stopped', 'some link did not deliver everything within the '
                          'drain time on a clean channel: ' + '; '.join(
                              'link %d: accepted %d, reached %d, peer sent %d, received %d' % (
                                  L.idx, len(L.sessions[-1]['order']), len(L.peer.rx) - L.sessions[-1]['rx_from'],
                                  len(L.peer.tx_taken) - L.sessions[-1]['taken_from'], len(L.sessions[-1]['received']))
                              for L in links if L.peer.has_safelink))
    # (glob['drain_ok'] only covers links on which both sides had safelink when the drain started)


class _Ctx:
    """ctx facade for the single-link oracle: same violations, message prefixed with the link number."""

    def __init__(self, ctx, knobs, idx):
        self._ctx, self.knobs, self._idx = ctx, knobs, idx

    def violation(self, clause, sig, msg, detail=None):
        return self._ctx.violation(clause, sig, 'link %d of a shared dongle: %s' % (self._idx, msg), detail)

    def probe(self, name, n=1):
        return self._ctx.probe(name, n)

    def __getattr__(self, n):
        return getattr(self._ctx, n)
