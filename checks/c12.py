"""
C12 — flashing writes exactly the image, nowhere else.

Real: Bootloader._internal_flash, Cloader.open_bootloader_uri/_update_info/_update_mapping/upload_buffer/write_flash.
Stub: SimLink, SimBootTarget (STM32 and nRF51 ids) with seeded geometry and flash-write faults.
"""
import random

from simkit import primitives as P
from simkit.harness import H, cflib_site
from world.boot import SimBootTarget
from world.simlink import World
from . import common

ID = 'C12'
BUDGET = {'quick': 40, 'thorough': 600}
MINIMISE_OPS = False

EVIDENCE = {
    'rule': 'Each run flashes one image through Bootloader._internal_flash into a simulated bootloader target with seeded '
            'geometry (page size 16..2048 incl. non powers of two and multiples of 25, 1-16 buffer pages, flash size, '
            'start page), image lengths from 1 byte to several buffer-fulls incl. exact multiples of page and buffer size, '
            'optional page_override, oversize images; every flash-write command gets an outcome '
            '{ok, request lost, reply lost, negative reply}; in the chatter modes unrelated packets (console text, late '
            'info / read-flash replies, the other target\'s flash-write replies) keep arriving every 0.1-2 s while commands '
            'wait for their answer.  A quarter of the runs go through the public Bootloader.flash(file, targets) with a real '
            'temporary .bin or .zip (manifest v1/v2; firmware for the STM32 and the nRF51 in either order) against a target '
            'pair with independent geometries: per-image oracle, no image for a target = that flash untouched, nothing '
            'flashed after the first failing image.',
    'directed': 'all outcome patterns {ok, reply lost, negative} of the first k flash-write commands (k=4 quick, 6 thorough) '
                'plus "every command unanswered"; unanswered / late-answered commands under chatter at periods 0.1, 1.0, '
                '2.4 and 3.0 s (around the 2.5 s reply time-out)',
    'real': ['Bootloader._internal_flash', 'Cloader._update_info/_update_mapping/upload_buffer/write_flash', 'CRTPPacket',
             'boottypes'],
    'stub': ['SimLink', 'SimBootTarget (info, buffer load, flash write, mapping)'],
    'assumptions': [
        'buffer-load packets are unacknowledged by protocol and are never dropped; flash-write replies are lost or '
        'negative, never merely late',
        'bytes of the last flash page beyond the end of the image are unspecified (whole pages are written)',
        'public flash(): a quarter of the public runs upgrade the nRF51 soft device + bootloader (erase of the first '
        'firmware page, image at the top of the flash, reset into the new bootloader which reports start page 108 instead '
        'of 88, firmware for the new layout); deck targets and warm boot are not exercised',
    ],
}


def gen_public(seed, rng, knobs):
    """Bootloader.flash(file, targets): a .bin for one target, or a zip (manifest v1/v2) with firmware for the STM32 and
    the nRF51, flashed one after the other over the same link."""
    geos = {}
    for tid in (0xFF, 0xFE):
        ps = rng.choice([16, 25, 64, 128, 1000, 1024])
        bp = rng.choice([1, 2, 3, 10])
        if tid == 0xFE:
            start = rng.choice([88, 108])         # the library derives the soft-device generation from it
            fp = start + rng.choice([1, 2, 8, 24])
        else:
            fp = rng.choice([4, 8, 20, 64])
            start = rng.choice([0, 1, fp // 2, fp - 1])
        geos[str(tid)] = {'tid': tid, 'page_size': ps, 'buffer_pages': bp, 'flash_pages': fp, 'start_page': start,
                          'proto': 0x10}
    kind = rng.choice(['bin', 'bin', 'zip1', 'zip2', 'zip2', 'zip2', 'sdbl', 'sdbl'])
    if kind == 'sdbl':
        return gen_sdbl(seed, rng, knobs, geos)
    tids = [rng.choice([0xFF, 0xFE])] if kind != 'zip2' else rng.choice([[0xFF, 0xFE], [0xFE, 0xFF]])
    arts = []
    for i, tid in enumerate(tids):
        g = geos[str(tid)]
        room = (g['flash_pages'] - g['start_page']) * g['page_size']
        k = rng.choice(['fit', 'fit', 'exact-page', 'full', 'one'] + (['oversize'] if i == 0 else []))
        if k == 'one':
            ln = 1
        elif k == 'exact-page':
            ln = g['page_size'] * rng.randint(1, max(1, min(g['flash_pages'] - g['start_page'], 3 * g['buffer_pages'])))
        elif k == 'full':
            ln = room
        elif k == 'oversize':
            ln = room + rng.choice([1, g['page_size']])
        else:
            ln = rng.randint(1, max(1, min(room, g['page_size'] * g['buffer_pages'] * 3 + 7)))
        arts.append({'tid': tid, 'len': ln, 'seed': rng.randrange(1 << 30)})
    mode = rng.choice(['clean', 'clean', 'lossy', 'negative', 'dead'])
    rates = {}
    if mode == 'lossy':
        rates['flash'] = [0.15, 0.15, 0.0]
    elif mode == 'negative':
        rates['flash'] = [0.03, 0.03, 0.08]
    elif mode == 'dead':
        rates['flash'] = [0.5, 0.5, 0.0]
    knobs['rates'] = rates
    return {'seed': seed, 'scenario': 'public-%s-%s' % (kind, mode), 'knobs': knobs, 'ops': [],
            'public': {'kind': kind, 'geos': geos, 'artifacts': arts, 'manifest_version': rng.choice([1, 2]),
                       'ask_targets': rng.choice(['all', 'listed'])},
            'progress_cb': rng.random() < 0.5}


def gen_sdbl(seed, rng, knobs, geos):
    """A release zip that upgrades the nRF51 soft device + bootloader (which moves the firmware start page from 88 to
    108) and carries nRF51 firmware (and possibly STM32 firmware) for the new layout."""
    ps = rng.choice([16, 64, 128])
    sd_pages = rng.choice([2, 8, 16])
    fp = 108 + rng.choice([4, 12, 40]) + sd_pages
    geos[str(0xFE)] = {'tid': 0xFE, 'page_size': ps, 'buffer_pages': rng.choice([1, 2, 4, 10]), 'flash_pages': fp,
                       'start_page': 88, 'proto': 0x10}
    room = (fp - sd_pages - 108) * ps
    arts = [{'tid': 0xFE, 'type': 'bootloader+softdevice', 'len': sd_pages * ps, 'seed': rng.randrange(1 << 30)},
            {'tid': 0xFE, 'type': 'fw', 'len': rng.choice([1, ps, room, rng.randint(1, room)]), 'seed': rng.randrange(1 << 30)}]
    if rng.random() < 0.5:
        g = geos[str(0xFF)]
        arts.append({'tid': 0xFF, 'type': 'fw', 'len': rng.randint(1, (g['flash_pages'] - g['start_page']) * g['page_size']),
                     'seed': rng.randrange(1 << 30)})
    rng.shuffle(arts)
    mode = rng.choice(['clean', 'clean', 'lossy'])
    knobs['rates'] = {'flash': [0.1, 0.1, 0.0]} if mode == 'lossy' else {}
    return {'seed': seed, 'scenario': 'public-sdbl-%s' % mode, 'knobs': knobs, 'ops': [],
            'public': {'kind': 'sdbl', 'geos': geos, 'artifacts': arts, 'manifest_version': 2, 'ask_targets': 'all',
                       'sd_pages': sd_pages, 'new_start': 108},
            'progress_cb': rng.random() < 0.5}


def gen(seed):
    rng = random.Random(H(seed, 'plan'))
    knobs = common.sched_knobs(rng, allow_stall=False)
    knobs['lat'] = (0.0005, 0.003)
    if rng.random() < 0.25:
        return gen_public(seed, rng, knobs)
    ps = rng.choice([16, 25, 50, 64, 100, 128, 256, 1000, 1024, 2048])
    bp = rng.choice([1, 2, 3, 4, 10, 16])
    fp = rng.choice([4, 8, 20, 64, 128])
    start = rng.choice([0, 1, 2, fp // 2, fp - 1])
    tid = rng.choice([0xFF, 0xFE])
    room = (fp - start) * ps
    kind = rng.choice(['fit', 'fit', 'fit', 'exact-page', 'exact-buffer', 'full', 'oversize', 'one'])
    if kind == 'one':
        ln = 1
    elif kind == 'exact-page':
        ln = ps * rng.randint(1, max(1, min(fp - start, 3 * bp)))
    elif kind == 'exact-buffer':
        ln = min(room, ps * bp * rng.randint(1, 3))
    elif kind == 'full':
        ln = room
    elif kind == 'oversize':
        ln = room + rng.choice([1, ps, 25])
    else:
        ln = rng.randint(1, max(1, min(room, ps * bp * 3 + 7)))
    override = None
    if rng.random() < 0.25:
        override = rng.randint(0, fp - 1)
        if kind != 'oversize':
            ln = max(1, min(ln, (fp - override) * ps))
    mode = rng.choice(['clean', 'clean', 'lossy', 'negative', 'dead', 'chatter', 'chatter-dead', 'late', 'late'])
    rates = {}
    if mode == 'lossy':
        rates['flash'] = [0.15, 0.15, 0.0]
    elif mode == 'negative':
        rates['flash'] = [0.05, 0.05, 0.15]
    elif mode == 'dead':
        rates['flash'] = [0.5, 0.5, 0.0]
    elif mode == 'chatter':
        # unrelated packets keep arriving while flash-write commands wait for their answer (console text of a firmware on
        # the same address, late answers to earlier commands, the other target): no negative replies in this mode, a retry
        # sent before a queued negative reply was read would be indistinguishable from one sent after it
        rates['flash'] = [0.2, 0.2, 0.0]
        knobs['chatter'] = {'period': rng.choice([0.1, 0.7, 2.0]), 'kinds': rng.choice([[0], [1], [2], [3], [0, 1, 2, 3]])}
        # handing a packet to the driver takes a moment (radio out-queue): the answer to a retransmitted duplicate then
        # arrives while the next pages are being uploaded
        knobs['send_duration'] = rng.choice([0.0, 0.0005, 0.002])
    elif mode == 'late':
        # slow erases: some flash-write commands are carried out but answered after the 2.5 s time-out, so the library
        # retransmits them and a duplicate answer is under way while the next pages are being uploaded
        rates['flash'] = [0.1, 0.1, 0.1, 0.25]
        knobs['late_delay'] = rng.choice([2.6, 3.0, 4.9])
        knobs['send_duration'] = rng.choice([0.0, 0.0005, 0.002])
    elif mode == 'chatter-dead':
        rates['flash'] = [0.5, 0.5, 0.0]
        knobs['chatter'] = {'period': rng.choice([0.1, 0.7, 2.0]), 'kinds': rng.choice([[0], [1], [2], [3], [0, 1, 2, 3]])}
    knobs['rates'] = rates
    return {'seed': seed, 'scenario': 'flash-' + mode, 'knobs': knobs, 'ops': [],
            'geo': {'tid': tid, 'page_size': ps, 'buffer_pages': bp, 'flash_pages': fp, 'start_page': start,
                    'proto': rng.choice([0x10, 0x10, 0x01])},
            'image_len': ln, 'image_seed': rng.randrange(1 << 30), 'override': override,
            'progress_cb': rng.random() < 0.5}


def directed(tier):
    import itertools
    k = 4 if tier == 'quick' else 6
    plans = []
    n = 0
    geo = {'tid': 0xFF, 'page_size': 64, 'buffer_pages': 2, 'flash_pages': 32, 'start_page': 3, 'proto': 0x10}
    for pat in list(itertools.product((0, 2, 3), repeat=k)) + [tuple([2] * 12), tuple([1] * 12), tuple([1, 2] * 6)]:
        n += 1
        plans.append({'seed': 990000 + n, 'scenario': 'directed-flash-write-outcomes', 'ops': [], 'geo': geo,
                      'knobs': {'line_mean': 0, 'p_stall': 0.0, 'lat': (0.001, 0.001), 'rates': {}},
                      'forced': list(pat), 'image_len': 64 * 5 + 10, 'image_seed': 5, 'override': None,
                      'progress_cb': False})
    # unanswered / late-answered commands while unrelated packets keep arriving faster than the 2.5 s reply time-out
    for period in (0.1, 1.0, 2.4, 3.0):
        for pat in (tuple([1] * 40), tuple([2] * 40), (2, 0, 1, 0, 0, 2, 2, 0, 0, 0, 0, 0)):
            for kinds in ([0], [1, 2, 3]):
                n += 1
                plans.append({'seed': 990000 + n, 'scenario': 'directed-chatter', 'ops': [], 'geo': geo,
                              'knobs': {'line_mean': 0, 'p_stall': 0.0, 'lat': (0.001, 0.001), 'rates': {},
                                        'chatter': {'period': period, 'kinds': kinds}},
                              'forced': list(pat), 'image_len': 64 * 5 + 10, 'image_seed': 5, 'override': None,
                              'progress_cb': False})
    # a duplicate answer that arrives while the next pages are being uploaded (an unrelated packet made the library
    # retransmit a command the target had carried out; handing packets to the driver takes 2 ms each) must be discarded
    # before the next flash-write: that one is lost on its first transmission(s)
    for period in (0.001, 0.0015, 0.003):
        for pat in ((0, 0, 1, 0, 0, 0, 0, 0, 0, 0, 0, 0), (0, 0, 1, 1, 0, 0, 0, 0, 0, 0, 0, 0), (0, 0, 0, 1, 0, 0, 0, 0, 0, 0, 0, 0),
                    (0, 0, 2, 0, 0, 0, 0, 0, 0, 0, 0, 0)):
            n += 1
            plans.append({'seed': 990000 + n, 'scenario': 'directed-duplicate-answer-during-upload', 'ops': [], 'geo': geo,
                          'knobs': {'line_mean': 0, 'p_stall': 0.0, 'lat': (0.001, 0.001), 'rates': {},
                                    'chatter': {'period': period, 'kinds': [0], 'max': 1}, 'send_duration': 0.002},
                          'forced': list(pat), 'image_len': 64 * 5 + 10, 'image_seed': 5, 'override': None,
                          'progress_cb': False})
    return plans


def execute_public(ctx):
    import contextlib
    import io
    import json
    import os
    import shutil
    import tempfile
    import zipfile
    from cflib.bootloader import Bootloader, Target
    plan, sim = ctx.plan, ctx.sim
    pub = plan['public']
    geos = {int(k): v for k, v in pub['geos'].items()}
    w = World(sim, ctx.faults, net_seed=H(ctx.seed, 'net'), lat=tuple(ctx.knobs.get('lat', (0.0005, 0.003))),
              needs_resending=False)
    tgt = SimBootTarget(sim, ctx.faults, geos)
    w.add_device('boot', tgt)
    w.uri_alias = lambda uri: 'boot' if uri.startswith('radio://0/0/2M/B1') else None
    w.install()
    ctx.notes['nontrivial'] = True
    if pub['kind'] == 'sdbl':
        g = geos[0xFE]
        tgt.sd_region[0xFE] = g['flash_pages'] - pub['sd_pages']
        tgt.after_reset[0xFE] = {'start_page': pub['new_start']}
    images = []
    for a in pub['artifacts']:
        r = random.Random(a['seed'])
        images.append(bytes(r.randrange(256) for _ in range(a['len'])))
    name = {0xFF: 'stm32', 0xFE: 'nrf51'}
    tmp = tempfile.mkdtemp(prefix='verif_c12_')
    res = {}
    try:
        if pub['kind'] == 'bin':
            fn = os.path.join(tmp, 'image.bin')
            with open(fn, 'wb') as f:
                f.write(images[0])
        else:
            fn = os.path.join(tmp, 'firmware.zip')
            files = {}
            with zipfile.ZipFile(fn, 'w') as zf:
                for a, img in zip(pub['artifacts'], images):
                    g = geos[a['tid']]
                    arc = 'cf2-%s.bin' % name[a['tid']]
                    if a.get('type') == 'bootloader+softdevice':
                        arc = 'cf2-nrf51-sd-bl.bin'
                    zf.writestr(arc, img)
                    md = {'platform': 'cf2', 'target': name[a['tid']], 'type': a.get('type', 'fw'), 'release': '2099.1',
                          'repository': 'x'}
                    if a.get('type') == 'bootloader+softdevice':
                        md['provides'] = ['sd-s130']
                        md['requires'] = []
                    elif pub['kind'] == 'sdbl' and a['tid'] == 0xFE:
                        md['requires'] = ['sd-s130']
                        md['provides'] = []
                    elif a['tid'] == 0xFE:
                        md['requires'] = ['sd-s110' if geos[0xFE]['start_page'] == 88 else 'sd-s130']
                    elif pub['manifest_version'] == 2:
                        md['requires'] = []
                        md['provides'] = []
                    files[arc] = md
                zf.writestr('manifest.json', json.dumps({'version': pub['manifest_version'], 'subversion': 1,
                                                         'release': '2099.1', 'files': files}))

        def scenario():
            bl = Bootloader('sim://boot')
            bl._cload.open_bootloader_uri('sim://boot')
            if bl._cload.link is None or not bl._cload.check_link_and_get_info(0xFF):
                ctx.violation('0', 'no-info', 'bootloader info not received')
                return
            if not bl.start_bootloader(warm_boot=False):
                ctx.violation('0', 'start_bootloader-failed', 'cold start with an open link returned False')
                return
            if plan.get('progress_cb'):
                bl.progress_cb = lambda msg, pct: res.setdefault('progress', []).append(pct)
            res['n_before'] = len(tgt.cmds)
            if pub['kind'] == 'bin' or pub['ask_targets'] == 'listed':
                targets = [Target('cf2', name[a['tid']], 'fw', [], []) for a in pub['artifacts']]
            else:
                targets = []
            try:
                with contextlib.redirect_stdout(io.StringIO()):
                    bl.flash(fn, targets)
                res['ok'] = True
            except Exception as e:
                res['exc'] = e
            res['n_after'] = len(tgt.cmds)
            P.sim_sleep(3.0)
            res['n_late'] = len(tgt.cmds)
            bl.close()

        verdict = sim.run(scenario)
    finally:
        shutil.rmtree(tmp, ignore_errors=True)
    if verdict[0] in ('deadlock', 'timeout', 'livelock'):
        from simkit.harness import hang_signature
        sg, msg = hang_signature(verdict)
        ctx.violation('4', sg, msg, verdict[1])
    for tname, exc, tb in sim.thread_deaths:
        ctx.violation('0', 'thread-died %s @%s' % (exc.split(':')[0], cflib_site(tb)),
                      'thread %s died: %s' % (tname, exc), tb)
    if 'n_before' not in res:
        return
    if pub['kind'] == 'sdbl':
        return oracle_sdbl(ctx, tgt, geos, pub, images, res)
    cmds = tgt.cmds[res['n_before']:]
    # the artifacts are flashed in manifest order; the first failing one ends the flashing
    failed_before = False
    touched = set(c[1] for c in cmds if c[2] in (0x14, 0x18))
    for a, img in zip(pub['artifacts'], images):
        tid = a['tid']
        g = geos[tid]
        ps, bp, fp, start = g['page_size'], g['buffer_pages'], g['flash_pages'], g['start_page']
        cm = [c for c in cmds if c[1] == tid]
        lo = [c for c in tgt.loads if c[1] == tid]
        wr = [c for c in tgt.writes if c[1] == tid]
        if failed_before:
            if any(c[2] in (0x14, 0x18) for c in cm) or bytes(tgt.t[tid]['flash']) != tgt.t[tid]['pristine']:
                ctx.violation('4', 'next-image-flashed-after-failure', 'target %#x received flashing commands although the '
                              'previous image failed' % tid)
            continue
        fits = len(img) <= (fp - start) * ps
        nviol = len(ctx.violations)
        # the single-image oracle; the outcome of the whole call is attributed to this image if it is the one that fails
        wouldfail = (not fits) or _write_failed(wr)
        r = dict(res)
        if not wouldfail and 'exc' in res and a is not pub['artifacts'][-1]:
            # the exception may belong to a later image: judge this one by its own commands
            r.pop('exc')
            r['n_late'] = r['n_after']
        oracle_target(ctx, tgt, tid, ps, bp, fp, start, img, fits, cm, lo, wr, r)
        if wouldfail:
            failed_before = True
        del nviol
    others = touched - set(a['tid'] for a in pub['artifacts'])
    if others:
        ctx.violation('1', 'target-without-image-written', 'targets %r received flashing commands but the file has no '
                      'image for them' % sorted(others))
    for tid in geos:
        if tid not in [a['tid'] for a in pub['artifacts']] and bytes(tgt.t[tid]['flash']) != tgt.t[tid]['pristine']:
            ctx.violation('1', 'flash-of-other-target-modified', 'target %#x has no image in the file' % tid)
    ctx.probe('public flash() %s' % pub['kind'])


def oracle_sdbl(ctx, tgt, geos, pub, images, res):
    """Soft-device + bootloader upgrade: the first firmware page is erased, the new soft device goes to the top of the
    flash, the nRF51 is reset into the new bootloader, and the firmware then goes to the start page the NEW bootloader
    reports.  Nothing else changes."""
    ctx.probe('public flash() with a soft-device / bootloader upgrade')
    if tgt.out_of_range:
        ctx.violation('1', 'address-out-of-range %s' % tgt.out_of_range[0][0], '%r' % (tgt.out_of_range[:3],))
    lossy = bool(ctx.knobs.get('rates'))
    if 'exc' in res:
        if not lossy or not any(_write_failed([w_ for w_ in tgt.writes if w_[1] == t]) for t in geos):
            ctx.violation('4', 'flashing-aborted-without-failure %s' % type(res['exc']).__name__,
                          'flash() raised %r although every flash-write was answered' % (res['exc'],))
        return
    if any(_write_failed([w_ for w_ in tgt.writes if w_[1] == t]) for t in geos):
        ctx.violation('4', 'no-error-after-failed-flash-write', 'a flash-write failed but flash() returned normally')
        return
    for tid, g in geos.items():
        ps = g['page_size']
        exp = bytearray(tgt.t[tid]['pristine'])
        regions = []
        if tid == 0xFE:
            old = 88
            exp[old * ps:(old + 1) * ps] = b'\xff' * ps
            regions.append(('erased first firmware page', old, 1))
        for a, img in zip(pub['artifacts'], images):
            if a['tid'] != tid:
                continue
            if a.get('type') == 'bootloader+softdevice':
                page = g['flash_pages'] - len(img) // ps
            elif tid == 0xFE:
                page = pub['new_start']
            else:
                page = g['start_page']
            exp[page * ps:page * ps + len(img)] = img
            regions.append((a.get('type', 'fw'), page, (len(img) + ps - 1) // ps))
        got = bytes(tgt.t[tid]['flash'])
        # whole pages are written: bytes of the last page of an image beyond its end are unspecified
        mask = bytearray(len(got))
        for (_, page, npg) in regions:
            for i in range(page * ps, min(len(got), (page + npg) * ps)):
                mask[i] = 1
        for a, img in zip(pub['artifacts'], images):
            pass
        diff = None
        for i in range(len(got)):
            if got[i] != exp[i]:
                inside_tail = mask[i] and exp[i] == tgt.t[tid]['pristine'][i] and not any(
                    page * ps <= i < page * ps + ln for (page, ln) in _exact_ranges(tid, g, pub, images))
                if not inside_tail:
                    diff = i
                    break
        if diff is not None:
            ctx.violation('1', 'flash-differs-after-softdevice-upgrade', 'target %#x: first difference at page %d offset %d; '
                          'expected regions (what, first page, pages): %r' % (tid, diff // ps, diff % ps, regions))
            return


def _exact_ranges(tid, g, pub, images):
    ps = g['page_size']
    out = []
    if tid == 0xFE:
        out.append((88, ps))
    for a, img in zip(pub['artifacts'], images):
        if a['tid'] != tid:
            continue
        if a.get('type') == 'bootloader+softdevice':
            out.append((g['flash_pages'] - len(img) // ps, len(img)))
        elif tid == 0xFE:
            out.append((pub['new_start'], len(img)))
        else:
            out.append((g['start_page'], len(img)))
    return out


def _effective(outs, ts, late_delay):
    """Outcomes as the library can see them: a late answer (4) that arrives after the end of the last wait is lost (2);
    None if it arrives within 30 ms of that instant (not judged)."""
    end = ts[-1] + 2.5
    eff = []
    for o, t in zip(outs, ts):
        if o == 4:
            arr = t + late_delay
            if arr > end + 0.03:
                o = 2
            elif arr > end - 0.03:
                return None
        eff.append(o)
    return eff


def _write_failed(writes, late_delay=2.6):
    """True if, by the retry rule, some flash-write command of this image must be treated as failed."""
    attempts = {}
    times = {}
    for (t, tid, bpage, fpage, n, outcome) in writes:
        attempts.setdefault((bpage, fpage, n), []).append(outcome)
        times.setdefault((bpage, fpage, n), []).append(t)
    for k_ in list(attempts):
        attempts[k_] = _effective(attempts[k_], times[k_], late_delay) or attempts[k_]
    for outs in attempts.values():
        answered = [o for o in outs if o in (0, 3, 4)]
        if answered and answered[0] == 3:
            return True
        if not answered and len(outs) >= 6:
            return True
    return False


def execute(ctx):
    if ctx.plan.get('public'):
        return execute_public(ctx)
    from cflib.bootloader import Bootloader, FlashArtifact, Target
    import cflib.crtp
    plan = ctx.plan
    sim = ctx.sim
    geo = plan['geo']
    tid = geo['tid']
    w = World(sim, ctx.faults, net_seed=H(ctx.seed, 'net'), lat=tuple(ctx.knobs.get('lat', (0.0005, 0.003))),
              needs_resending=False)
    tgt = SimBootTarget(sim, ctx.faults, {tid: geo})
    if plan.get('forced') is not None:
        tgt.forced = list(plan['forced'])
    w.send_duration = ctx.knobs.get('send_duration', 0.0)
    if ctx.knobs.get('late_delay'):
        tgt.late_replies = True
        tgt.late_delay = ctx.knobs['late_delay']
    if ctx.knobs.get('late_delay') or ctx.knobs.get('chatter'):
        tgt.evl = []
        w.on_down_delivered = lambda link, h, d: tgt.evl.append(('down', d[0])) if (
            h == 0xFF and len(d) >= 2 and d[1] == 0x18) else None
        w.on_uplink = lambda link, pk: tgt.evl.append(('tx', pk.data[0])) if (
            pk.header == 0xFF and len(pk.data) >= 2 and pk.data[1] == 0x18) else None
    w.add_device('boot', tgt)
    w.install()
    ctx.notes['nontrivial'] = plan['scenario'].startswith('directed')
    rng = random.Random(plan['image_seed'])
    image = bytes(rng.randrange(256) for _ in range(plan['image_len']))
    ps, bp, fp = geo['page_size'], geo['buffer_pages'], geo['flash_pages']
    start = plan['override'] if plan['override'] is not None else geo['start_page']
    fits = len(image) <= (fp - start) * ps
    res = {}

    def scenario():
        bl = Bootloader('sim://boot')
        bl._cload.open_bootloader_uri('sim://boot')
        if bl._cload.link is None:
            ctx.violation('0', 'no-link', 'open_bootloader_uri found no driver')
            return
        if not bl._cload.check_link_and_get_info(tid):
            ctx.violation('0', 'no-info', 'bootloader info not received')
            return
        ti = bl._cload.targets[tid]
        if (ti.page_size, ti.buffer_pages, ti.flash_pages, ti.start_page) != (ps, bp, fp, geo['start_page']):
            ctx.violation('0', 'info-decoded-wrong', 'target info %r vs geometry %r' % (
                (ti.page_size, ti.buffer_pages, ti.flash_pages, ti.start_page), geo))
            return
        if plan.get('progress_cb'):
            bl.progress_cb = lambda msg, pct: res.setdefault('progress', []).append(pct)
        n_before = len(tgt.cmds)
        res['n_before'] = n_before
        art = FlashArtifact(image, Target('cf2', 'stm32' if tid == 0xFF else 'nrf51', 'fw', [], []), None)
        ch = ctx.knobs.get('chatter')
        if ch:
            def tick():
                if 'ok' in res or 'exc' in res:
                    return
                if ch.get('max') is not None:
                    # a single unrelated packet, right after the first flash-write command was received
                    if not tgt.writes:
                        sim.after(ch['period'] / 4, tick)
                        return
                    if tgt.chatter_sent >= ch['max']:
                        return
                tgt.chatter(ch['kinds'][tgt.chatter_sent % len(ch['kinds'])], tid)
                sim.after(ch['period'], tick)
            sim.after(ch['period'], tick)
        try:
            import io
            import contextlib
            with contextlib.redirect_stdout(io.StringIO()):
                bl._internal_flash(art, page_override=plan['override'])
            res['ok'] = True
        except Exception as e:
            res['exc'] = e
        res['n_after'] = len(tgt.cmds)
        P.sim_sleep(3.0)
        res['n_late'] = len(tgt.cmds)
        bl.close()

    verdict = sim.run(scenario)
    if verdict[0] in ('deadlock', 'timeout', 'livelock'):
        from simkit.harness import hang_signature
        sg, msg = hang_signature(verdict)
        ctx.violation('4', sg, msg, verdict[1])
    for name, exc, tb in sim.thread_deaths:
        ctx.violation('0', 'thread-died %s @%s' % (exc.split(':')[0], cflib_site(tb)),
                      'thread %s died: %s' % (name, exc), tb)
    if 'n_before' not in res:
        return
    oracle_target(ctx, tgt, tid, ps, bp, fp, start, image, fits, tgt.cmds[res['n_before']:], list(tgt.loads),
                  list(tgt.writes), res)


LATE_TAG = ' [a duplicate flash-write answer was delivered while a later command was waiting for its own answer: the ' \
           'answers carry no sequence number]'


def oracle_target(ctx, tgt, tid, ps, bp, fp, start, image, fits, cmds, loads, writes, res):
    mark = len(ctx.violations)
    _oracle_target(ctx, tgt, tid, ps, bp, fp, start, image, fits, cmds, loads, writes, res)
    if getattr(tgt, 'evl', None) is None or len(ctx.violations) == mark:
        return
    # a command that was carried out but answered late is retransmitted and answered again; the late answer is a
    # duplicate.  If it is delivered before the next command is transmitted the library has to discard it (it flushes the
    # downlink before every flash-write); delivered later it is indistinguishable from the answer to that command
    # (order of events on the link: every flash-write transmission and every delivered flash-write answer, in true order;
    # transmissions correspond one to one to `writes`, deliveries to the writes that produce an answer)
    evl = [e for e in getattr(tgt, 'evl', []) if e[1] == tid]
    tx_pos = [i for i, e in enumerate(evl) if e[0] == 'tx']
    down_pos = [i for i, e in enumerate(evl) if e[0] == 'down']
    ambiguous = False
    if len(tx_pos) != len(writes):
        ambiguous = True           # cannot be attributed: stay on the safe side
    else:
        replying = [j for j, w_ in enumerate(writes) if w_[5] in (0, 3, 4)]
        seen_first = set()
        for r_i, j in enumerate(replying):
            key = (writes[j][2], writes[j][3], writes[j][4])
            if key not in seen_first:
                seen_first.add(key)
                continue
            # a duplicate answer: where was it delivered relative to the first transmission of the next command?
            nxt = [jj for jj in range(j + 1, len(writes)) if (writes[jj][2], writes[jj][3], writes[jj][4]) != key]
            if not nxt:
                continue
            if r_i >= len(down_pos) or down_pos[r_i] > tx_pos[nxt[0]]:
                ambiguous = True
    if ambiguous:
        ctx.probe('late duplicate answer delivered during a later flash-write')
        # one signature for the whole family (what goes wrong afterwards - pages missing, no abort, an abort without a
        # failure - follows from which answer was mistaken for which)
        for v in ctx.violations[mark:]:
            v['msg'] = '%s: %s' % (v['sig'], v['msg'])
            v['sig'] = 'C12/4 answer-attributed-to-wrong-command' + LATE_TAG
        del ctx.violations[mark + 1:]


def _oracle_target(ctx, tgt, tid, ps, bp, fp, start, image, fits, cmds, loads, writes, res):
    """Everything the statement says about flashing one image into one target.  cmds/loads/writes: the commands the
    target received for this image; res: {'exc'|'ok', 'n_after', 'n_late'} of the flashing call."""
    g = tgt.t[tid]
    flash, pristine = g['flash'], g['pristine']
    # clause 2: oversize refused before anything is written
    if not fits:
        if 'exc' not in res:
            ctx.violation('2', 'oversize-image-accepted', 'image of %d bytes accepted, room for %d' % (
                len(image), (fp - start) * ps))
        if any(c[2] in (0x14, 0x18) for c in cmds):
            ctx.violation('2', 'sent-before-refusing-oversize-image', '%d load/write commands were sent' % sum(
                1 for c in cmds if c[2] in (0x14, 0x18)))
        if bytes(flash) != pristine:
            ctx.violation('2', 'flash-changed-by-refused-image', '')
        return
    # clause 3: buffer-load packets
    for (t, tid2, page, addr, payload, total) in loads:
        if total > 31:
            ctx.violation('3', 'buffer-load-packet-too-long', '%d bytes after the CRTP header' % total)
            break
    oor = [o for o in tgt.out_of_range if o[-1] == tid]
    if oor:
        ctx.violation('1', 'address-out-of-range %s' % oor[0][0], '%r' % (oor[:3],))
    # rounds: loads between consecutive flash-write commands (first transmission of each write)
    npages = (len(image) + ps - 1) // ps
    rounds = []
    cur = []
    last_w = None
    for c in cmds:
        if c[2] == 0x14:
            cur.append(c)
            last_w = None
        elif c[2] == 0x18:
            if last_w is None:
                rounds.append((cur, c))
                cur = []
            last_w = c
    import struct
    page_done = 0
    covered_ok = True
    for (lds, wcmd) in rounds:
        bpage, fpage, n = struct.unpack('<HHH', wcmd[3][2:8])
        # every byte of every page of this round exactly once at the right offset
        cov = {}
        for c in lds:
            page, addr = struct.unpack('<HH', c[3][2:6])
            payload = c[3][6:]
            for i, b in enumerate(payload):
                cov.setdefault((page, addr + i), []).append(b)
        for bi in range(n):
            img_page = page_done + bi
            chunk = image[img_page * ps:(img_page + 1) * ps]
            for off in range(len(chunk)):
                got = cov.get((bpage + bi, off), [])
                if len(got) != 1 or got[0] != chunk[off]:
                    ctx.violation('3', 'buffer-byte-%s' % ('missing' if not got else 'twice' if len(got) > 1 else 'wrong'),
                                  'round writing flash page %d: buffer page %d offset %d loaded %r, image byte %d'
                                  % (fpage, bpage + bi, off, got, chunk[off]))
                    covered_ok = False
                    break
            if not covered_ok:
                break
        if fpage != start + page_done:
            ctx.violation('1', 'wrong-flash-page-addressed', 'round for image pages %d.. addressed flash page %d, expected %d'
                          % (page_done, fpage, start + page_done))
        page_done += n
        if not covered_ok:
            break
    # clause 4: bounded retries, abort on failure
    # group flash-write attempts by identical command
    attempts = {}
    order = []
    times = {}
    for (t, tid2, bpage, fpage, n, outcome) in writes:
        k = (bpage, fpage, n)
        if k not in attempts:
            order.append(k)
        attempts.setdefault(k, []).append(outcome)
        times.setdefault(k, []).append(t)
    # a late answer only counts if it arrives before the library's last wait (2.5 s after the last transmission) is over
    for k in order:
        eff = _effective(attempts[k], times[k], getattr(tgt, 'late_delay', 2.6))
        if eff is None:
            ctx.probe('late answer at the edge of the last wait: retry clause not judged')
            return
        attempts[k] = eff
    failed = None
    for k in order:
        outs = attempts[k]
        if len(outs) > 6:
            ctx.violation('4', 'flash-write-sent-more-than-6-times', 'command %r sent %d times' % (k, len(outs)))
        # the link is FIFO: the answers to the transmissions of one command arrive in transmission order and the first
        # one decides (a late positive answer precedes whatever the retransmitted duplicate was answered with)
        answered = [o for o in outs if o in (0, 3, 4)]
        if answered and answered[0] == 3 and outs[-1] != 3 and outs.index(3) < len(outs) - 1 and 4 not in outs:
            ctx.violation('4', 'continued-after-negative-reply', 'command %r outcomes %r' % (k, outs))
        if not answered and len(outs) >= 6:
            failed = (k, 'unanswered')
        if answered and answered[0] == 3:
            failed = (k, 'negative')
        if failed:
            break
    if failed:
        ctx.probe('flash-write failed: %s' % failed[1])
        if 'exc' not in res:
            ctx.violation('4', 'no-error-after-failed-flash-write (%s)' % failed[1],
                          'flash-write %r %s but _internal_flash returned normally' % failed)
        idx = order.index(failed[0])
        if idx != len(order) - 1:
            ctx.violation('4', 'continued-after-failed-flash-write', 'further flash-write commands %r after %r failed'
                          % (order[idx + 1:], failed[0]))
        if res.get('n_late') != res.get('n_after'):
            ctx.violation('4', 'commands-after-abort', 'commands were sent after the error was raised')
        return
    if 'exc' in res:
        ctx.violation('4', 'flashing-aborted-without-failure %s' % type(res['exc']).__name__,
                      '_internal_flash raised %r although every flash-write was answered positively' % (res['exc'],))
        return
    # clause 1: flash content
    a = start * ps
    if bytes(flash[a:a + len(image)]) != image:
        first = next(i for i in range(len(image)) if flash[a + i] != image[i])
        ctx.violation('1', 'flash-differs-from-image', 'first difference at image byte %d (flash page %d)'
                      % (first, start + first // ps))
    end_page = start + npages
    if bytes(flash[:a]) != pristine[:a] or bytes(flash[end_page * ps:]) != pristine[end_page * ps:]:
        ctx.violation('1', 'page-outside-image-range-modified', 'image occupies flash pages %d..%d' % (start, end_page - 1))
    if any(len(v) > 1 for v in attempts.values()):
        ctx.probe('flash-write retried')
    if tgt.chatter_sent:
        ctx.probe('unrelated packets arrived during flashing')
