"""
C07 — received packets reach exactly the matching callbacks, once, in order.

Real: _IncomingPacketHandler thread, Crazyflie.add/remove_*_callback, Caller, CRTPPacket; the library's own
subsystem callbacks stay registered.  Stub: SimLink fed by the harness (silent device).
"""
import random

from simkit import primitives as P
from simkit.harness import H, cflib_site
from world import gen as wgen
from . import common

ID = 'C07'
BUDGET = {'quick': 40, 'thorough': 600}
MINIMISE_OPS = True

EVIDENCE = {
    'rule': 'Each run registers up to 12 distinct (port, port mask, channel, channel mask, callback) patterns, feeds up '
            'to 40 packets (all 256 header bytes are covered over a batch; the callbacks are plain functions, '
            'functools.partial objects, callable instances and bound methods) and lets scripted callbacks add / remove '
            'registrations (themselves, earlier and later ones) or raise while a packet is being dispatched; an independent '
            'matcher and the registration time line decide must / may / must-not per (packet, registration).  In a quarter '
            'of the runs the link is torn down while the last packet is being dispatched (close_link called by one of its '
            'callbacks, or a link error handled on another thread while a callback runs): the remaining callbacks still '
            'get that packet.  In a fifth of the runs an application thread registers / unregisters an extra callback while '
            'bursts of packets are being dispatched (the packets its change may overlap are judged "may").',
    'directed': 'two callbacks on one pattern where the first unregisters itself / the second / raises, at every list '
                'position 0..3; tear-down by / during the callback at each of five positions',
    'real': ['_IncomingPacketHandler (real thread)', 'Crazyflie.add_port_callback/add_header_callback/remove_*',
             'Caller', 'CRTPPacket', 'the library subsystems\' own port callbacks'],
    'stub': ['SimLink inbox fed by the harness; the device is silent'],
    'assumptions': [
        'a registration added or removed while a packet is being dispatched may or may not see that packet (at most once)',
        'packet_received (all-packet) callbacks do not raise: the statement covers exceptions of port callbacks only',
        'registrations are distinct tuples (the same tuple registered twice is legitimately delivered twice)',
    ],
}


def gen(seed):
    rng = random.Random(H(seed, 'plan'))
    knobs = common.sched_knobs(rng)
    nreg = rng.choice([1, 2, 3, 5, 8, 12])
    regs = []
    seen = set()
    for i in range(nreg):
        if rng.random() < 0.4:
            port = rng.randrange(16)
            r = {'kind': 'port', 'port': port, 'pm': 0xFF, 'ch': 0, 'cm': 0}
        else:
            pm = rng.choice([0xFF, 0xFF, 0x0F, 0x0C, 0x03, 0x00])
            cm = rng.choice([0xFF, 0xFF, 0x03, 0x01, 0x02, 0x00])
            port = rng.randrange(16) & pm
            ch = rng.randrange(4) & cm
            if rng.random() < 0.1:
                port = rng.randrange(16)       # may never match when bits outside the mask are set
            r = {'kind': 'header', 'port': port, 'pm': pm, 'ch': ch, 'cm': cm}
        # several registrations may share one callback object (distinct tuples, same function): a removal must then
        # identify the registration by all five fields
        r['cb'] = i
        if i > 0 and rng.random() < 0.35:
            j = rng.randrange(i)
            r['cb'] = regs[j]['cb']
            if rng.random() < 0.7:
                # same port and channel values, other masks
                r.update({'kind': 'header', 'port': regs[j]['port'], 'ch': regs[j]['ch'],
                          'pm': rng.choice([0xFF, 0x0F, 0x1F, 0x8F, 0x0E | regs[j]['port']]) ,
                          'cm': rng.choice([0xFF, 0x03, 0x00, 0x07, 0x01 | regs[j]['ch']])})
        key = (r['port'], r['pm'], r['ch'], r['cm'], r['cb'])
        if key in seen:
            r['cb'] = i
            key = (r['port'], r['pm'], r['ch'], r['cm'], r['cb'])
        seen.add(key)
        r['initial'] = rng.random() < 0.7
        # script: list of actions for the k-th invocation
        script = {}
        for k in range(rng.choice([0, 0, 1, 2])):
            acts = []
            for _ in range(rng.choice([1, 1, 2])):
                a = rng.choice(['add', 'remove', 'remove-self', 'raise', 'remove-next', 'remove-prev'])
                acts.append([a, rng.randrange(nreg)])
            script[str(rng.randrange(4))] = acts
        r['script'] = script
        regs.append(r)
    npk = rng.choice([1, 3, 8, 20, 40])
    base = rng.randrange(256)
    pkts = []
    for j in range(npk):
        if rng.random() < 0.6 and regs:
            r = rng.choice(regs)
            h = ((r['port'] & 0xF) << 4) | (rng.randrange(4) << 2) | (r['ch'] & 3)
            if rng.random() < 0.3:
                h = (h & 0xF0) | rng.randrange(16)
        else:
            h = (base + j * 7) & 0xFF
        pkts.append([h, [rng.randrange(256) for _ in range(rng.choice([0, 1, 3, 8, 30]))]])
    ops = []
    for j, pk in enumerate(pkts):
        if rng.random() < 0.15:
            ops.append(['toggle', rng.randrange(nreg)])
        ops.append(['pk', pk[0], pk[1]])
    concurrent = False
    if rng.random() < 0.2:
        # another thread registers / unregisters an extra callback while packets are being dispatched (as
        # Param.get_default_value, persistent_* or TocFetcher.start do from application threads)
        concurrent = True
        pm = rng.choice([0xFF, 0x0F, 0x00])
        cm = rng.choice([0xFF, 0x03, 0x00])
        regs.append({'kind': rng.choice(['port', 'header']), 'port': rng.randrange(16) & pm if pm != 0xFF else rng.randrange(16),
                     'pm': pm, 'ch': rng.randrange(4) & cm, 'cm': cm, 'cb': len(regs), 'initial': rng.random() < 0.5,
                     'script': {}})
        if regs[-1]['kind'] == 'port':
            regs[-1].update({'pm': 0xFF, 'ch': 0, 'cm': 0})
        e = len(regs) - 1
        # scripts never touch the extra registration (their relative targets wrap around the list)
        for i, r in enumerate(regs[:-1]):
            for k in list(r['script']):
                r['script'][k] = [a for a in r['script'][k] if not (
                    (a[0] == 'remove-next' and (i + 1) % len(regs) == e) or (a[0] == 'remove-prev' and (i - 1) % len(regs) == e))]
        pos = sorted(rng.randrange(len(ops) + 1) for _ in range(rng.choice([1, 3, 6])))
        for off, at in enumerate(pos):
            ops.insert(at + off, ['toggle-now', e])
    final_close = None
    if regs and not concurrent and rng.random() < 0.25:
        # while the last packet is being dispatched one of its callbacks closes the link, or the driver thread reports a
        # link error: the remaining callbacks still get that packet
        i = rng.randrange(nreg)
        r = regs[i]
        h = ((r['port'] & 0xF) << 4) | (rng.randrange(4) << 2) | (r['ch'] & 3)
        ops.append(['pk', h, [rng.randrange(256) for _ in range(rng.choice([0, 3, 30]))]])
        final_close = {'reg': i, 'how': rng.choice(['close_link', 'link_error'])}
    return {'seed': seed, 'scenario': 'dispatch-concurrent' if concurrent else 'dispatch', 'knobs': knobs, 'regs': regs,
            'ops': ops, 'all_cbs': rng.choice([0, 1, 2]), 'burst': concurrent or rng.random() < 0.5,
            'final_close': final_close}


def directed(tier):
    plans = []
    n = 0
    for pos in range(4):
        for act in (('remove-self', 'remove-next', 'raise', 'add') if tier == 'quick' else
                    ('remove-self', 'remove-next', 'remove-prev', 'raise', 'add')):
            regs = []
            for i in range(5):
                regs.append({'kind': 'port', 'port': 9, 'pm': 0xFF, 'ch': 0, 'cm': 0, 'initial': i < 4,
                             'script': ({'0': [[act, 4 if act == 'add' else i]]} if i == pos else {})})
            # distinct tuples: use header registrations with different channel masks that all match channel 0..3
            for i, r in enumerate(regs):
                r.update({'kind': 'header', 'ch': 0, 'cm': 0, 'pm': [0xFF, 0x0F, 0x1F, 0x2F, 0x4F][i], 'cb': i})
            n += 1
            plans.append({'seed': 950000 + n, 'scenario': 'directed-%s-at-%d' % (act, pos), 'regs': regs,
                          'ops': [['pk', 0x90, [1, 2]], ['pk', 0x91, [3]], ['pk', 0x93, []]],
                          'knobs': {'line_mean': 0, 'p_stall': 0.0}, 'all_cbs': 1, 'burst': True})
    # one callback registered under two patterns that differ in a mask only; one of them is removed
    for (a, b) in (({'kind': 'port', 'port': 9, 'pm': 0xFF, 'ch': 0, 'cm': 0}, {'kind': 'header', 'port': 9, 'pm': 0xFF, 'ch': 0, 'cm': 0xFF}),
                   ({'kind': 'header', 'port': 8, 'pm': 0xFF, 'ch': 0, 'cm': 0x01}, {'kind': 'header', 'port': 8, 'pm': 0xFF, 'ch': 0, 'cm': 0x02}),
                   ({'kind': 'port', 'port': 8, 'pm': 0xFF, 'ch': 0, 'cm': 0}, {'kind': 'header', 'port': 8, 'pm': 0x0E, 'ch': 0, 'cm': 0})):
        for which in (0, 1):
            for inside in (False, True):
                n += 1
                r0 = dict(a, initial=True, script={}, cb=0)
                r1 = dict(b, initial=True, script={}, cb=0)
                r2 = {'kind': 'port', 'port': a['port'], 'pm': 0xFF, 'ch': 0, 'cm': 0, 'initial': True, 'cb': 1,
                      'script': ({'0': [['remove', which]]} if inside else {})}
                ops = [['pk', (a['port'] << 4) | 0, [1]]] + ([] if inside else [['toggle', which]]) + \
                      [['pk', (a['port'] << 4) | c, [c]] for c in range(4)] + [['pk', ((a['port'] | 1) << 4), [9]]]
                plans.append({'seed': 950000 + n, 'scenario': 'directed-shared-callback', 'regs': [r0, r1, r2], 'ops': ops,
                              'knobs': {'line_mean': 0, 'p_stall': 0.0}, 'all_cbs': 0, 'burst': True})
    for h0 in range(0, 256, 64):
        n += 1
        plans.append({'seed': 950000 + n, 'scenario': 'directed-all-headers',
                      'regs': [{'kind': 'header', 'port': p, 'pm': 0xFF, 'ch': c, 'cm': 0xFF, 'initial': True, 'script': {},
                                'cb': k} for k, (p, c) in enumerate((p, c) for p in (0, 7, 15) for c in (0, 3))] +
                              [{'kind': 'port', 'port': 9, 'pm': 0xFF, 'ch': 0, 'cm': 0, 'initial': True, 'script': {},
                                'cb': 6}],
                      'ops': [['pk', h, [h]] for h in range(h0, h0 + 64)],
                      'knobs': {'line_mean': 0, 'p_stall': 0.0}, 'all_cbs': 1, 'burst': True})
    # the link is torn down by / while the callback at position pos of five is handling the last packet
    for how in ('close_link', 'link_error'):
        for pos in range(5):
            n += 1
            regs = [{'kind': 'header', 'port': 9, 'ch': 0, 'cm': 0, 'pm': [0xFF, 0x0F, 0x1F, 0x2F, 0x4F][i], 'cb': i,
                     'initial': True, 'script': {}} for i in range(5)]
            plans.append({'seed': 950000 + n, 'scenario': 'directed-teardown-during-dispatch', 'regs': regs,
                          'ops': [['pk', 0x90, [1, 2]], ['pk', 0x91, [3]]],
                          'knobs': {'line_mean': 0, 'p_stall': 0.0}, 'all_cbs': 1, 'burst': False,
                          'final_close': {'reg': pos, 'how': how}})
    return plans


def matches(r, port, channel):
    return r['port'] == (port & r['pm']) and r['ch'] == (channel & r['cm'])


def execute(ctx):
    from cflib.crazyflie import Crazyflie
    plan = ctx.plan
    sim = ctx.sim
    dev_desc = {'version': 10, 'legacy_source': False, 'log': [], 'param': [], 'mems': [], 'log_crc': None,
                'param_crc': None, 'value_seed': 1}
    w, devs = common.make_world(ctx, {'cf': dev_desc}, needs_resending=False)
    devs['cf'].silent = True
    ctx.notes['nontrivial'] = plan['scenario'].startswith('directed')
    regs = plan['regs']
    n = len(regs)
    active = [False] * n              # harness view of "registered"
    touched = [set() for _ in range(n)]   # packet indices during whose dispatch reg i was added/removed
    deliveries = []                   # (packet idx, reg idx)
    all_deliv = []                    # (packet idx, all-cb idx)
    cur = {'pk': None}
    count = [0] * n
    st = {}
    raised = [0]

    n_pk = sum(1 for op in plan['ops'] if op[0] == 'pk')

    def scenario():
        SimLink = w.install()
        link = SimLink()
        link.connect('sim://cf', None, None)
        cf = Crazyflie(link=link)
        st['cf'] = cf
        cbs = []

        def do_add(i):
            r = regs[i]
            if active[i]:
                return
            if r['kind'] == 'port':
                cf.add_port_callback(r['port'], cbs[r.get('cb', i)])
            else:
                cf.add_header_callback(cbs[r.get('cb', i)], r['port'], r['ch'], r['pm'], r['cm'])
            active[i] = True
            ctx.obs('reg-add', i, cur['pk'])
            if cur['pk'] is not None:
                touched[i].add(cur['pk'])

        def do_remove(i):
            r = regs[i]
            if not active[i]:
                return
            if r['kind'] == 'port':
                cf.remove_port_callback(r['port'], cbs[r.get('cb', i)])
            else:
                cf.remove_header_callback(cbs[r.get('cb', i)], r['port'], r['ch'], r['pm'], r['cm'])
            active[i] = False
            ctx.obs('reg-remove', i, cur['pk'])
            if cur['pk'] is not None:
                touched[i].add(cur['pk'])

        def mk(i):
            def cb(pk):
                k = count[i]
                count[i] += 1
                deliveries.append((cur['pk'], i, pk.header, bytes(pk.data)))
                ctx.obs('deliver', cur['pk'], i)
                fc = plan.get('final_close')
                if fc and fc['reg'] == i and cur['pk'] == n_pk - 1 and not st.get('closing'):
                    st['closing'] = True
                    ctx.probe('link torn down during the dispatch of a packet (%s)' % fc['how'])
                    if fc['how'] == 'close_link':
                        cf.close_link()
                    else:
                        t = P.SimThread(target=lambda: cf._link_error_cb('simulated link failure'), name='driver-error')
                        t.daemon = True
                        t.start()
                        common.wait_until(sim, lambda: cf.link is None, 2.0, 0.001)
                    st['closed_done'] = True
                for act, j in regs[i]['script'].get(str(k), []):
                    if act == 'add':
                        do_add(j)
                    elif act == 'remove':
                        do_remove(j)
                    elif act == 'remove-self':
                        do_remove(i)
                    elif act == 'remove-next':
                        do_remove((i + 1) % n)
                    elif act == 'remove-prev':
                        do_remove((i - 1) % n)
                    elif act == 'raise':
                        raised[0] += 1
                        ctx.probe('callback raised during dispatch')
                        raise RuntimeError('scripted callback failure')
            # every kind of callable a user can register: plain function, functools.partial, callable instance,
            # bound method (the last three have no __name__ / __qualname__ of their own)
            kind = i % 4
            if kind == 1:
                import functools
                return functools.partial(lambda tag, pk: cb(pk), i)
            if kind == 2:
                class Handler:
                    def __call__(self, pk):
                        return cb(pk)
                return Handler()
            if kind == 3:
                class Owner:
                    def on_packet(self, pk):
                        return cb(pk)
                return Owner().on_packet
            return cb
        for i in range(n):
            cbs.append(mk(i))       # callback object number i; registration r uses cbs[r['cb']]

        # all-packet callbacks; the first one marks the start of a dispatch
        def begin(pk):
            # packets are dispatched strictly in arrival order: the k-th dispatched packet is the k-th fed one
            cur['pk'] = seq['n']
            seq['n'] += 1
        st['fed_map'] = {}
        cf.packet_received.callbacks.insert(0, begin)
        for a in range(plan.get('all_cbs', 0)):
            cf.packet_received.add_callback(lambda pk, a=a: all_deliv.append((cur['pk'], a)))

        for i in range(n):
            if regs[i]['initial']:
                do_add(i)
        fed = 0
        inbox = link.inbox

        def idle():
            ts = cf.incoming._ts
            return len(inbox) == 0 and ts.state == 'blocked' and ts.wait_what == 'simlink-inbox'

        def settle():
            def gone():
                # the link is gone: the dispatcher finishes the packet in hand and then has nothing to wait on
                P.sim_sleep(0.5)
                cur['pk'] = None
                return True
            if st.get('closing'):
                common.wait_until(sim, lambda: st.get('closed_done'), 30.0, 0.001)
                return gone()
            if not common.wait_until(sim, lambda: idle() or st.get('closed_done'), 30.0, 0.001):
                ctx.violation('5', 'dispatcher-stalled', 'packets not consumed within 30 s')
                return False
            if st.get('closing'):
                return gone()
            cur['pk'] = None
            return True

        for op in plan['ops']:
            if op[0] == 'pk':
                pkt_log.append((fed, op[1], bytes(op[2])))
                inbox.put((op[1], bytes(op[2]) + b''))
                order_fed.append(fed)
                fed += 1
                if not plan.get('burst'):
                    if not settle():
                        return
            elif op[0] == 'toggle-now':
                # no settling: the dispatcher may be in the middle of any of the packets fed so far
                i = op[1]
                first = max(seq['n'] - 1, 0)
                if active[i]:
                    do_remove(i)
                else:
                    do_add(i)
                last = max(seq['n'] - 1, first)
                dyn.append((i, first, last))
                ctx.probe('registration changed by another thread during dispatch')
            else:
                if not settle():
                    return
                i = op[1]
                if active[i]:
                    do_remove(i)
                else:
                    do_add(i)
        settle()
        P.sim_sleep(1.5)
        st['alive'] = cf.incoming.is_alive()

    pkt_log = []
    order_fed = []
    seq = {'n': 0}
    dyn = []                # (registration, first packet, last packet) of changes made by another thread, unsettled

    verdict = sim.run(scenario)
    if verdict[0] in ('deadlock', 'timeout', 'livelock'):
        from simkit.harness import hang_signature
        sg, msg = hang_signature(verdict)
        ctx.violation('5', sg, msg, verdict[1])
    for name, exc, tb in sim.thread_deaths:
        ctx.violation('5', 'thread-died %s @%s' % (exc.split(':')[0], cflib_site(tb)),
                      'library thread %s died: %s' % (name, exc), tb)
    if st.get('alive') is False:
        ctx.violation('5', 'dispatcher-dead', 'the incoming packet handler is not alive at the end')
    oracle(ctx, plan, regs, pkt_log, deliveries, all_deliv, touched, raised[0], dyn)


def oracle(ctx, plan, regs, pkt_log, deliveries, all_deliv, touched, nraised, dyn=()):
    """Per packet and per callback object: the number of deliveries must lie between the number of matching
    registrations of that callback that were registered before the dispatch began and not touched during it (must)
    and that number plus the matching registrations added/removed during the dispatch (may)."""
    n = len(regs)
    cb_of = [r.get('cb', i) for i, r in enumerate(regs)]
    active = [r['initial'] for r in regs]
    count = [0] * n
    by_pk = {}
    for d in deliveries:
        by_pk.setdefault(d[0], []).append(d)
    if None in by_pk:
        ctx.violation('1', 'delivery-outside-dispatch', 'a port callback ran although no packet was being dispatched: %r'
                      % (by_pk[None][:3],))
        return
    shared = len(set(cb_of)) < n
    fed = 0
    dyn = list(dyn)
    for (i, first, last) in dyn:
        for q in range(first, last + 1):
            touched[i].add(q)
    for op in plan['ops']:
        if op[0] == 'toggle':
            active[op[1]] = not active[op[1]]
            continue
        if op[0] == 'toggle-now':
            continue
        p = fed
        fed += 1
        # changes made by another thread take effect (for certain) from the packet after the last one they overlapped
        while dyn and dyn[0][2] < p:
            active[dyn[0][0]] = not active[dyn[0][0]]
            dyn.pop(0)
        h = op[1]
        port, channel = (h & 0xF0) >> 4, h & 3
        before = list(active)
        got = by_pk.get(p, [])
        got_cbs = [d[1] for d in got]
        for d in got:
            if (d[2] & 0xF3) != (h & 0xF3):
                ctx.violation('1', 'wrong-packet-delivered', 'packet %d header %#x delivered as %#x' % (p, h, d[2]))
                return
            if d[3] != bytes(op[2]):
                ctx.violation('1', 'payload-changed', 'packet %d payload %r delivered as %r' % (p, bytes(op[2]), d[3]))
                return
        # apply the scripted effects of the delivered callbacks (in delivery order) to the model
        for c in got_cbs:
            k = count[c]
            count[c] += 1
            for act, j in regs[c]['script'].get(str(k), []):
                if act == 'add':
                    active[j] = True
                elif act == 'remove':
                    active[j] = False
                elif act == 'remove-self':
                    active[c] = False
                elif act == 'remove-next':
                    active[(c + 1) % n] = False
                elif act == 'remove-prev':
                    active[(c - 1) % n] = False
                elif act == 'raise':
                    break
        for c in sorted(set(cb_of)):
            mine = [i for i in range(n) if cb_of[i] == c]
            must = [i for i in mine if matches(regs[i], port, channel) and before[i] and p not in touched[i]]
            may = [i for i in mine if matches(regs[i], port, channel) and p in touched[i]]
            d = got_cbs.count(c)
            desc = [{k: regs[i][k] for k in ('port', 'pm', 'ch', 'cm')} for i in mine]
            if d > len(must) + len(may):
                if not must and not may:
                    ctx.violation('1' if any(before[i] for i in mine) else '3',
                                  'delivered-to-non-matching' if any(before[i] for i in mine) else 'delivered-to-unregistered',
                                  'packet %d (port %d ch %d) delivered %d times to callback %d whose registrations %r do not '
                                  'match / are not registered (registered: %r)' % (p, port, channel, d, c, desc,
                                                                                 [before[i] for i in mine]))
                else:
                    ctx.violation('1', 'delivered-twice', 'packet %d (header %#x) delivered %d times to callback %d which has '
                                  '%d matching registrations %r' % (p, h, d, c, len(must) + len(may), desc))
                return
            if d < len(must):
                why = 'a callback raised earlier in this dispatch' if nraised else \
                    'another callback changed the registrations during this dispatch' if any(p in t for t in touched) \
                    else ('an earlier removal of a sibling registration of the same callback' if shared
                          else 'nothing else happened')
                ctx.violation('1' if not nraised else '2', 'matching-callback-skipped',
                              'packet %d (port %d ch %d) delivered %d times to callback %d, which has %d matching registrations '
                              'that were registered before the dispatch began and not removed during it (%r); %s'
                              % (p, port, channel, d, c, len(must), [desc[mine.index(i)] for i in must], why))
                return
    # arrival order per callback
    last = {}
    for d in deliveries:
        if d[1] in last and d[0] < last[d[1]]:
            ctx.violation('1', 'out-of-order', 'callback %d got packet %d after packet %d' % (d[1], d[0], last[d[1]]))
            return
        last[d[1]] = d[0]
    # all-packet callbacks: every packet exactly once, in order
    na = plan.get('all_cbs', 0)
    for a in range(na):
        seq = [p for (p, x) in all_deliv if x == a]
        if seq != list(range(fed)):
            ctx.violation('1', 'all-packet-callback-missed', 'packet_received callback %d saw %r of %d packets'
                          % (a, seq[:10], fed))
            return
