"""
C11 — the table cache never yields a wrong table, even after a crash.

Real: TocCache, TocFetcher, Log/Param TOC handling, JSON encode/decode, the whole connection sequence.
Stub: SimFS behind toccache.open/glob/os (read-only and read-write directory; written-but-unsynced data is volatile),
SimLink, SimCF.  A plan is a sequence of process lives over one simulated file system.
"""
import random

from simkit import kernel
from simkit import primitives as P
from simkit.harness import H, cflib_site
from world import gen as wgen
from world.simfs import SimFS
from . import common

ID = 'C11'
BUDGET = {'quick': 50, 'thorough': 900}
MINIMISE_OPS = True

EVIDENCE = {
    'rule': 'Each run is 2-4 process lives over one simulated file system: a life creates a Crazyflie with read-only and/or '
            'read-write cache directories, connects to firmware A, to a different firmware B, or to a firmware whose log and '
            'parameter tables announce the same checksum, and ends cleanly or with a crash (at a seeded instant of the '
            'connect sequence) after which every file written in that life keeps a seeded prefix, optionally followed by a '
            'zero or garbage tail.  In a fifth of the later lives the cache files of the announced checksums are removed or '
            'made unreadable by somebody else after the Crazyflie object listed them (before open_link, or between two '
            'connections of one object).  In 15 % of the lives a second Crazyflie object of the same process connects to '
            'the other firmware at the same time over the same cache directories (file-system calls are scheduling points).  '
            'In 15 % of the later lives the cached files of the firmware were written by "another library version": '
            'well-formed JSON whose elements lack one field of the current format.',
    'directed': 'every byte offset of the log-table and parameter-table cache files of a small firmware (crash after a '
                'complete first connect), followed by a reconnect; two objects filling one read-write directory at the same '
                'virtual instant with tables of equal size (24 / 120 schedules), then a cached connection to each firmware',
    'real': ['TocCache (fetch/insert/_encoder/_decoder)', 'TocFetcher', 'Log.refresh_toc', 'Param.refresh_toc',
             '_ExtendedTypeFetcher', 'json', 'Crazyflie connection sequence'],
    'stub': ['SimFS (open/glob/os.path.exists/os.makedirs seams of cflib.crazyflie.toccache)', 'SimLink', 'SimCF'],
    'assumptions': [
        'cflib writes a cache file with one write() and never fsyncs: at a crash a file written in that life keeps any '
        'prefix (0..full length), optionally followed by zeros or garbage; files of earlier lives are intact',
        'checksum collisions between different firmwares are outside the statement (the cache trusts the checksum by '
        'design); the collision between the log and the parameter table of one firmware is inside it',
    ],
}

BOUND = 120.0


def gen(seed):
    rng = random.Random(H(seed, 'plan'))
    knobs = common.sched_knobs(rng)
    knobs['needs_resending'] = rng.random() < 0.5
    knobs['lat'] = (0.0005, 0.003)
    version = rng.choice([10, 10, 5, 3])
    devs = {}
    for name in ('A', 'B'):
        devs[name] = wgen.gen_device(rng, n_log=rng.choice([0, 1, 2, 5, 12, 30]), n_param=rng.choice([1, 2, 5, 12, 30]),
                                     version=version, mems=[])
    collide = rng.random() < 0.25
    if collide:
        c = rng.randrange(1 << 32)
        devs['A']['log_crc'] = c
        devs['A']['param_crc'] = c
    elif rng.random() < 0.3:
        # checksums with leading zero digits, and two firmwares (same table sizes) whose checksums differ only in the
        # leading digits: the 8-digit file name of one ends with the short form of the other
        import copy
        devs['B'] = copy.deepcopy(devs['A'])
        for t in ('log', 'param'):
            for e in devs['B'][t]:
                e[1] = (e[1] + 'x')[:max(1, len(e[1]))] if len(e[1]) > 1 else e[1] + 'y'
            names = [(e[0], e[1]) for e in devs['B'][t]]
            if len(set(names)) != len(names):
                for i, e in enumerate(devs['B'][t]):
                    e[1] = 'n%d' % i
        zeros = rng.choice([1, 2, 4, 7])
        for t in ('log_crc', 'param_crc'):
            low = rng.randrange(1, 1 << (4 * (8 - zeros)))
            devs['B'][t] = low
            devs['A'][t] = low | (rng.randrange(1, 16) << (4 * (8 - zeros))) if zeros < 8 else low
        if devs['A']['log_crc'] == devs['A']['param_crc']:
            devs['A']['param_crc'] ^= 0x10000000
    nlives = rng.choice([2, 2, 3, 4])
    lives = []
    for li in range(nlives):
        life = {'notify': rng.random() < 0.3, 'dev': rng.choice(['A', 'A', 'A', 'B']),
                'dirs': rng.choice(['rw', 'rw', 'ro+rw', 'ro', 'none', 'seed-ro']),
                'crash': None}
        if rng.random() < 0.15:
            life['twin'] = True
        if li > 0 and rng.random() < 0.15:
            # the cache files of this firmware were written by another version of the library: well-formed JSON of the
            # same shape, but every element lacks one of the fields the current format has
            life['foreign'] = rng.choice(['extended', 'extended', 'access', 'pytype', 'ident', 'ctype'])
        if li > 0 and rng.random() < 0.2:
            # somebody cleans the cache directory (or changes its permissions) after the Crazyflie object was created
            life['vanish'] = {'which': rng.choice(['log', 'param', 'both']), 'how': rng.choice(['removed', 'unreadable']),
                              'when': rng.choice(['before-open', 'before-open', 'second-connection'])}
        if li < nlives - 1 and rng.random() < 0.6:
            life['crash'] = {'at': rng.choice(['end', 'end', 'log-done', rng.uniform(0.0, 0.3)]),
                             'keep': [[rng.choice(['frac', 'frac', 'zero', 'all', 'minus1', 'one']), rng.random(),
                                       rng.choice(['', '', 'zeros', 'garbage', 'json'])] for _ in range(2)]}
        lives.append(life)
    lives[-1]['dev'] = 'A'
    scen = 'cache-collide' if collide else 'cache-lives'
    if devs['B'].get('log_crc') is not None and not collide:
        scen = 'cache-short-checksum'
        lives[0]['dev'] = 'A'
        lives[0]['dirs'] = rng.choice(['rw', 'seed-ro'])
        lives[0]['crash'] = None
        lives[-1]['dev'] = 'B'
        lives[-1]['dirs'] = rng.choice(['rw', 'ro+rw']) if lives[0]['dirs'] == 'rw' else rng.choice(['ro', 'ro+rw'])
    return {'seed': seed, 'scenario': scen, 'knobs': knobs, 'devices': devs, 'ops': lives}


def directed(tier):
    rng = random.Random(1111)
    dev = wgen.gen_device(rng, n_log=2, n_param=2, version=10, mems=[])
    plans = []
    n = 0
    step = 1 if tier == 'thorough' else 3
    # file lengths are known only after a dry run; offsets beyond the length are clamped ('all')
    for which in (0, 1):
        for k in range(0, 420, step):
            n += 1
            keep = [['all', 0, ''], ['all', 0, '']]
            keep[which] = ['bytes', k, '']
            plans.append({'seed': 980000 + n, 'scenario': 'directed-truncate-at-byte', 'devices': {'A': dev, 'B': dev},
                          'knobs': {'line_mean': 0, 'p_stall': 0.0, 'needs_resending': False, 'lat': (0.001, 0.001)},
                          'ops': [{'dev': 'A', 'dirs': 'rw', 'crash': {'at': 'end', 'keep': keep}},
                                  {'dev': 'A', 'dirs': 'rw', 'crash': None}]})
    # two Crazyflie objects of one process fill the same read-write cache directory at the same moment (two firmwares
    # with tables of equal size), then each firmware is connected to again with the cache present
    import copy
    devb = copy.deepcopy(dev)
    for t in ('log', 'param'):
        for i, e in enumerate(devb[t]):
            e[1] = 'other%d' % i
    devb['value_seed'] = 99
    for v in range(24 if tier == 'quick' else 120):
        n += 1
        plans.append({'seed': 985000 + n, 'scenario': 'directed-twin-fill', 'devices': {'A': dev, 'B': devb},
                      'knobs': {'line_mean': [0, 3, 10, 1][v % 4], 'p_stall': [0.0, 0.3][(v // 4) % 2], 'stall_window': 0.002,
                                'needs_resending': False, 'lat': (0.001, 0.001)},
                      'ops': [{'dev': 'A', 'dirs': 'rw', 'crash': None, 'twin': True},
                              {'dev': 'A', 'dirs': 'rw', 'crash': None},
                              {'dev': 'B', 'dirs': 'rw', 'crash': None}]})
    return plans


def execute(ctx):
    from cflib.crazyflie import Crazyflie
    plan = ctx.plan
    fs = SimFS()
    fs.install()
    ctx.notes['nontrivial'] = plan['scenario'].startswith('directed')
    complete = {}          # path -> set of (kind, full content) ever completely written there
    digests = []
    total = {'steps': 0, 'sim': 0.0}
    first = True
    deaths = []
    for li, life in enumerate(plan['ops']):
        if first:
            sim = ctx.sim
            first = False
        else:
            digests.append(ctx.sim.digest.hexdigest())
            total['steps'] += ctx.sim.steps
            total['sim'] += ctx.sim.now
            deaths.extend(ctx.sim.thread_deaths)
            sim = kernel.Sim(kernel.Decisions(seed=H(ctx.seed, 'sched', li)), line_mean=ctx.knobs.get('line_mean', 0),
                             p_stall=ctx.knobs.get('p_stall', 0.0), stall_window=ctx.knobs.get('stall_window', 0.02),
                             max_steps=ctx.knobs.get('max_steps', 12_000_000),
                             pct=ctx.knobs.get('pct', 0), pct_horizon=ctx.knobs.get('pct_horizon', 20000),
                             p_starve=ctx.knobs.get('p_starve', 0.0), starve_len=ctx.knobs.get('starve_len', 200),
                             trace_roots=ctx.sim.trace_roots, keep_log=ctx.sim.keep_log)
            ctx.sim = sim
        run_life(ctx, sim, fs, plan, li, life, complete, Crazyflie)
        if any(v['clause'] == '1' for v in ctx.violations):
            break
    for d in digests:
        ctx.sim.digest.update(d.encode())
    ctx.sim.thread_deaths = deaths + ctx.sim.thread_deaths
    for name, exc, tb in ctx.sim.thread_deaths:
        ctx.violation('5', 'thread-died %s @%s' % (exc.split(':')[0], cflib_site(tb)),
                      'library thread %s died: %s' % (name, exc), tb)
    if fs.ro_mutations:
        ctx.violation('4', 'read-only-directory-written', 'mutations attempted under the read-only directory: %r'
                      % (fs.ro_mutations[:3],))
    ctx.notes['lives'] = len(plan['ops'])


def run_life(ctx, sim, fs, plan, li, life, complete, Crazyflie):
    devd = plan['devices'][life['dev']]
    twin = life.get('twin')
    if twin:
        other = plan['devices']['B' if life['dev'] == 'A' else 'A']
        w, devs = common.make_world(ctx, {'cf': devd, 'cf2': other})
    else:
        w, devs = common.make_world(ctx, {'cf': devd})
    dev = devs['cf']
    dirs = life['dirs']
    ro = rw = None
    if dirs == 'rw':
        rw = '/rw'
    elif dirs == 'ro':
        ro = '/ro'
    elif dirs == 'ro+rw':
        ro, rw = '/ro', '/rw'
    elif dirs == 'seed-ro':
        rw = '/ro'                       # this life populates what later lives mount read-only
    # the read-only root is only protected while it is mounted read-only
    fs.ro_root = '/ro' if dirs != 'seed-ro' else '/__none__'
    if life.get('foreign'):
        import json as _json
        key = life['foreign']
        names = ('%08X.json' % dev.log_crc, '%08X.json' % dev.param_crc)

        def strip(o):
            if isinstance(o, dict):
                if '__class__' in o:
                    return {k: v for k, v in o.items() if k != key}
                return {k: strip(v) for k, v in o.items()}
            return o
        for pth in sorted(fs.files):
            if pth.endswith(names):
                try:
                    doc = _json.loads(fs.files[pth].decode('latin1'))
                except Exception:
                    continue
                new = _json.dumps(strip(doc), indent=2).encode('latin1')
                if new != fs.files[pth] and _json.loads(new) != doc:
                    fs.files[pth] = new
                    ctx.probe('cache file of another library version (no %r field)' % key)
    snapshot = dict(fs.files)
    st = {}
    crash = life.get('crash')

    def record_complete():
        # complete contents written in this life (before any crash truncation)
        for path, full in fs.dirty.items():
            for d_ in devs.values():
                kind = None
                if path.endswith('%08X.json' % d_.log_crc) and b'LogTocElement' in full:
                    kind = 'log'
                if path.endswith('%08X.json' % d_.param_crc) and b'ParamTocElement' in full:
                    kind = 'param'
                if kind and full:
                    complete.setdefault(path, set()).add((kind, full))

    def on_connected(uri):
        cf = st['cf']
        d = common.compare_log_toc(cf, dev) + common.compare_param_toc(cf, dev)
        if d:
            ctx.violation('2', 'wrong-table-after-cache', 'life %d (%s, dirs %s): %s' % (li, life['dev'], dirs, d[:4]))
        d = common.lookup_consistency(cf.log.toc, 'log') + common.lookup_consistency(cf.param.toc, 'param')
        if d:
            ctx.violation('2', 'lookup-inconsistent-after-cache', 'life %d (%s, dirs %s): %s' % (li, life['dev'], dirs, d[:4]))
        st['connected'] = sim.now

    def scenario():
        try:
            cf = Crazyflie(ro_cache=ro, rw_cache=rw)
        except Exception as e:
            ctx.violation('5', 'cache-setup-raised %s' % type(e).__name__, 'Crazyflie(ro_cache=%r, rw_cache=%r): %r'
                          % (ro, rw, e))
            return
        st['cf'] = cf
        cf.connected.add_callback(on_connected)
        cf.connection_failed.add_callback(lambda uri, msg: st.__setitem__('failed', msg))
        vanish = life.get('vanish')

        def do_vanish():
            names = []
            if vanish['which'] in ('log', 'both'):
                names.append('%08X.json' % dev.log_crc)
            if vanish['which'] in ('param', 'both'):
                names.append('%08X.json' % dev.param_crc)
            for pth in sorted(fs.files):
                if any(pth.endswith(nm) for nm in names):
                    ctx.probe('cache file %s after the object was created' % vanish['how'])
                    if vanish['how'] == 'removed':
                        del fs.files[pth]
                        fs.dirty.pop(pth, None)
                        snapshot.pop(pth, None)
                    else:
                        fs.unreadable.add(pth)
                        snapshot.pop(pth, None)
        if vanish and vanish['when'] == 'before-open':
            do_vanish()
        if life.get('notify') and dev.v2 and dev.param_toc:
            # the firmware reports changed parameter values while the connection is being set up
            def note():
                if 'connected' not in st and not st.get('gone'):
                    dev.notify_param(ctx.work.randrange(len(dev.param_toc)))
                    sim.after(0.003, note)
            sim.after(0.001, note)
        cf.open_link('sim://cf')
        if twin:
            # a second Crazyflie object of the same process, same cache directories, another firmware, at the same time
            dev2 = devs['cf2']
            cf2 = Crazyflie(ro_cache=ro, rw_cache=rw)

            def on_connected2(uri):
                d = common.compare_log_toc(cf2, dev2) + common.compare_param_toc(cf2, dev2)
                if d:
                    ctx.violation('2', 'wrong-table-after-cache', 'life %d, second object: %s' % (li, d[:4]))
                st['connected2'] = sim.now
            cf2.connected.add_callback(on_connected2)
            cf2.connection_failed.add_callback(lambda uri, msg: st.__setitem__('failed2', msg))
            cf2.open_link('sim://cf2')
            ctx.probe('two Crazyflie objects share the cache directories')
        at = crash['at'] if crash else 'end'
        if isinstance(at, float):
            P.sim_sleep(at)
            ctx.probe('crash during the connection sequence')
            return                                   # crash: the process is gone
        if at == 'log-done':
            common.wait_until(sim, lambda: cf.log.toc is not None and any(
                t[2] == 2 for t in dev.toc_requests) or 'connected' in st, BOUND, 0.0005)
            ctx.probe('crash between the two cache inserts')
            return
        if not common.wait_until(sim, lambda: 'connected' in st or 'failed' in st, BOUND, 0.01):
            ctx.violation('1', 'connect-never-finished', 'life %d: connected not signalled within %g s' % (li, BOUND),
                          [(t['thread'], t['waiting_on']) for t in sim.describe_threads()])
            return
        if 'failed' in st:
            ctx.violation('1', 'connection-failed-with-cache', 'life %d: %s' % (li, str(st['failed'])[:200]))
            return
        if twin:
            if not common.wait_until(sim, lambda: 'connected2' in st or 'failed2' in st, BOUND, 0.01):
                ctx.violation('1', 'connect-never-finished', 'life %d: second object not connected within %g s' % (li, BOUND))
                return
            if 'failed2' in st:
                ctx.violation('1', 'connection-failed-with-cache', 'life %d, second object: %s' % (li, str(st['failed2'])[:200]))
                return
            cf2.close_link()
        P.sim_sleep(0.3)
        if vanish and vanish['when'] == 'second-connection' and not crash:
            # same object, second connection: the files of the first one are gone by then
            cf.close_link()
            P.sim_sleep(0.2)
            del dev.toc_requests[:]
            st.pop('connected', None)
            # what the second connection may legitimately load: the files as they are now, minus the vanished ones
            record_complete()
            snapshot.clear()
            snapshot.update(fs.files)
            do_vanish()
            cf.open_link('sim://cf')
            if not common.wait_until(sim, lambda: 'connected' in st or 'failed' in st, BOUND, 0.01):
                ctx.violation('1', 'connect-never-finished', 'life %d, second connection after the cache files were %s: '
                              'connected not signalled within %g s' % (li, vanish['how'], BOUND),
                              [(t['thread'], t['waiting_on']) for t in sim.describe_threads()])
                return
            if 'failed' in st:
                ctx.violation('1', 'connection-failed-with-cache', 'life %d: %s' % (li, str(st['failed'])[:200]))
                return
            P.sim_sleep(0.3)
        if not crash:
            cf.close_link()
            P.sim_sleep(0.2)

    verdict = sim.run(scenario)
    st['gone'] = True
    if verdict[0] in ('deadlock', 'timeout', 'livelock'):
        from simkit.harness import hang_signature
        sg, msg = hang_signature(verdict)
        ctx.violation('1', sg, msg, verdict[1])
    # clause 3: a table taken from the cache requires a complete file for exactly the announced checksum and kind
    if 'connected' in st:
        for kind, port, crc, n in (('log', 5, dev.log_crc, len(dev.log_toc)), ('param', 2, dev.param_crc, len(dev.param_toc))):
            fetched = any(t[2] == port and t[3] in (0, 2) for t in dev.toc_requests)
            if n > 0 and not fetched:
                ctx.probe('%s table taken from the cache' % kind)
                name = '%08X.json' % crc
                cands = [p for p in snapshot if p.endswith(name) and ((ro and p.startswith(ro + '/')) or
                                                                      (rw and p.startswith(rw + '/')))]
                ok = any((kind, snapshot[p]) in complete.get(p, set()) for p in cands)
                if not ok:
                    ctx.violation('3', 'cache-hit-without-complete-file (%s)' % kind,
                                  'life %d: the %s table was not downloaded although no complete cache file for checksum '
                                  '%08X exists (candidates %r)' % (li, kind, crc, [(p, len(snapshot[p])) for p in cands]))
            elif n > 0:
                ctx.probe('%s table downloaded' % kind)
    record_complete()
    if crash:
        keep = {}
        paths = sorted(fs.dirty)
        for i, path in enumerate(paths):
            mode, x, tail = crash['keep'][i % len(crash['keep'])]
            full = fs.dirty[path]
            if mode == 'all':
                n = None
            elif mode == 'zero':
                n = 0
            elif mode == 'minus1':
                n = max(0, len(full) - 1)
            elif mode == 'one':
                n = min(1, len(full))
            elif mode == 'bytes':
                n = min(int(x), len(full))
            else:
                n = int(x * (len(full) + 1))
            tb = b''
            if tail == 'zeros':
                tb = bytes(ctx.work.randrange(1, 64))
            elif tail == 'garbage':
                tb = bytes(ctx.work.randrange(256) for _ in range(ctx.work.randrange(1, 64)))
            elif tail == 'json':
                # what is left parses as JSON but is not a table (only meaningful after an empty prefix)
                tb = ctx.work.choice([b'7', b'"x"', b'[1, 2]', b'{}', b'{"a": 1}', b'null', b'true', b'{"g": {"n": 3}}',
                                      b'{"g": [1]}'])
                if n:
                    n = 0
            keep[path] = (n, tb)
            if n is not None and n < len(full):
                ctx.probe('cache file truncated by a crash')
                ctx.faults.fired.append(['crash_truncate', li, n])
        fs.crash(keep)
    else:
        fs.clean_restart()
    fs.unreadable.clear()
