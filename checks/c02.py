"""
C02 — connection life-cycle grammar, no hang under any link fault.

Real: everything under cflib.crazyflie incl. SyncCrazyflie.  Stub: SimLink, SimCF.
A plan is a history of sessions on ONE Crazyflie object; the last session is
always fault free and must reach fully_connected.
"""
import os
import random

from simkit import primitives as P
from simkit.harness import H, cflib_site
from world import gen as wgen
from . import common

ID = 'C02'
BUDGET = {'quick': 55, 'thorough': 900}
MINIMISE_OPS = True

EVIDENCE = {
    'rule': 'Each run is a history of 1-4 connection attempts on one Crazyflie object against a generated '
            'firmware model; per attempt the URI kind, sync/async API, link-failure point k (packet count), '
            'failure reporting thread (incl. "reported by the driver thread before connect() returns"), close instant and '
            'scheduler knobs are drawn from the run seed.  12 % of the histories run over the real radio stack (RadioDriver, '
            'Crazyradio, fake dongle, ESB/safelink peer) and 8 % over the real USB stack (UsbDriver, CfUsb, fake pyusb '
            'device that is unplugged) instead of SimLink.',
    'directed': 'link failure after every k-th exchanged packet (k = 0..handshake length) x {driver thread, '
                'sender thread} x {async, sync} on a small fixed device',
    'real': ['cflib.crazyflie.Crazyflie', '_IncomingPacketHandler', 'Param/_ParamUpdater/_ExtendedTypeFetcher',
             'Log', 'Memory', 'PlatformService', 'TocFetcher', 'LinkStatistics/Latency', 'SyncCrazyflie',
             'cflib.utils.callbacks.Caller', 'CRTPPacket', 'CPython threading.Condition/Event/Semaphore/Timer logic, '
             'queue.Queue logic'],
    'stub': ['SimLink (sim:// CRTP driver)', 'SimCF firmware model', 'SimLock/SimThread/virtual clock',
             'FakeDongle + NrfPeer + air (radio variant)', 'fake pyusb Crazyflie device (USB variant)'],
    'assumptions': [
        'the parameter table has at least one entry (with an empty table the library never signals fully_connected; '
        'table-size edge cases belong to C03)',
        'SimCF answers every request (a link that stays silent and never reports an error may block '
        'SyncCrazyflie.open_link for ever; no time-out is promised, so every silent phase ends with an error or a close)',
        'a link failure is reported once per link instance, from the driver thread or from inside send_packet '
        '(after an optional 2 s block, as RadioDriver does on a full out-queue)',
        'when the error report races with the first packet (packet delivered to the driver but link_established not '
        'yet signalled) either connection_failed or disconnected+connection_lost is accepted',
        'known race families (known_findings.json) cover life-cycle event anomalies of an attempt whose history is '
        'genuinely concurrent (tear-down on another thread while the dispatcher dispatches - incl. a dispatch that begins '
        'between the driver close and the end of the disconnect handlers -, close/error during open_link); thread deaths, '
        'dead-locks, exceptions out of the API and blocking calls that never return are never covered, except a blocking '
        'open after a concurrent tear-down (the set-up of that attempt can stall)',
    ],
}

BOUND = 30.0


def small_device(rng):
    return wgen.gen_device(rng, n_log=rng.choice([1, 2, 4]), n_param=rng.choice([1, 3, 5]),
                          version=rng.choice([10, 10, 5, 3, -1]),
                          mems=[[0x18, 64, None]] if rng.random() < 0.5 else [])


def gen_plan(seed):
    rng = random.Random(H(seed, 'plan'))
    knobs = common.sched_knobs(rng)
    knobs['needs_resending'] = rng.random() < 0.5
    knobs['lat'] = rng.choice([(0.0005, 0.003), (0.0, 0.0), (0.002, 0.02)])
    dev = wgen.gen_device(rng, n_param=rng.choice([1, 2, 3, 5, 8, 13, 20]), mems=None)
    if rng.random() < 0.3:
        # a 1-wire memory (valid or CRC-broken) is read during the handshake
        dev['mems'].append([1, 112, wgen.ow_image(rng, valid=rng.random() < 0.6).hex()])
    est = 12 + 2 * (len(dev['log']) + len(dev['param'])) + 2 * len(dev['mems'])
    nsess = rng.choice([1, 1, 2, 2, 3, 4])
    ops = []
    for i in range(nsess - 1):
        ops.append(gen_session(rng, est))
    ops.append({'uri': 'good', 'sync': rng.random() < 0.5, 'fail': None, 'close': None, 'final': True})
    # values that arrive twice while the parameter values are being downloaded: an application that asks for a value
    # from its connected callback, and firmware that reports changed values on its own
    knobs['extra_read_on_connected'] = rng.random() < 0.25
    knobs['notify_during_download'] = rng.random() < 0.25
    plan = {'seed': seed, 'scenario': 'lifecycle', 'knobs': knobs, 'device': dev, 'ops': ops}
    if rng.random() < 0.12:
        # the same history over the real radio driver stack (fake dongle, ESB/safelink peer) instead of SimLink
        plan['scenario'] = 'lifecycle-radio'
        plan['link'] = 'radio'
        knobs['retries'] = rng.choice([10, 20, 40])
        knobs['airtime'] = rng.choice([0.001, 0.002])
        knobs['safelink'] = rng.random() < 0.8
        small = wgen.gen_device(rng, n_log=rng.choice([1, 3]), n_param=rng.choice([1, 3, 5]), version=rng.choice([10, 5, 3]),
                                mems=[[0x18, 32, None]] if rng.random() < 0.5 else [])
        plan['device'] = small
        for s_ in ops:
            if s_.get('fail'):
                s_['fail']['after'] = rng.choice([0, 1, 2, rng.randint(0, 30), rng.randint(0, 60)])
            if s_['uri'] == 'raise':
                s_['uri'] = 'unknown'
    elif rng.random() < 0.08:
        # the same history over the real USB driver stack (UsbDriver, CfUsb, fake pyusb device)
        plan['scenario'] = 'lifecycle-usb'
        plan['link'] = 'usb'
        knobs['needs_resending'] = False
        for s_ in ops:
            if s_.get('fail'):
                s_['fail']['mode'] = 'driver'       # unplugging is reported by the receive thread
                s_['fail']['block'] = 0
    return plan


def gen_session(rng, est):
    s = {'uri': 'good', 'sync': rng.random() < 0.4, 'fail': None, 'close': None, 'final': False}
    r = rng.random()
    if r < 0.08:
        s['uri'] = rng.choice(['unknown', 'malformed', 'nodevice', 'raise'])
        return s
    if r < 0.55:
        k = rng.choice([0, 1, 2, rng.randint(0, est), rng.randint(0, est), rng.randint(0, 2 * est + 10)])
        s['fail'] = {'after': k, 'mode': rng.choice(['driver', 'sender']),
                     'block': rng.choice([0, 0, 2.0])}
        if k == 0 and s['fail']['mode'] == 'driver' and rng.random() < 0.5:
            s['fail']['in_connect'] = True      # reported by the driver thread before connect() returns
    if r >= 0.45:
        # user close at a seeded instant (phase + delay), from a user thread or the main thread
        s['close'] = {'phase': rng.choice(['requested', 'link', 'link', 'connected', 'connected', 'full', 'full',
                                           'time', 'time']),
                      'delay': rng.choice([0.0, 0.0, rng.uniform(0, 0.01), rng.uniform(0, 0.3)]),
                      'thread': rng.choice(['main', 'user'])}
    return s



def directed(tier):
    plans = []
    rng = random.Random(12345)
    dev = wgen.gen_device(rng, n_log=2, n_param=3, version=10, mems=[[0x18, 32, None]], ext_rate=0.5)
    kmax = 44 if tier == 'quick' else 60
    n = 0
    for sync in (False, True):
        for mode in ('driver', 'sender'):
            for k in range(0, kmax):
                n += 1
                for variant in range(1 if tier == 'quick' else 4):
                    knobs = {'line_mean': [0, 10, 3, 40][variant], 'p_stall': [0.0, 0.3, 0.1, 0.0][variant],
                             'stall_window': 0.02, 'needs_resending': True, 'lat': (0.0005, 0.003)}
                    plans.append({'seed': 900000 + n * 10 + variant, 'scenario': 'directed-fail-after-k',
                                  'knobs': knobs, 'device': dev,
                                  'ops': [{'uri': 'good', 'sync': sync, 'close': None, 'final': False,
                                           'fail': {'after': k, 'mode': mode, 'block': 0}},
                                          {'uri': 'good', 'sync': sync, 'fail': None, 'close': None,
                                           'final': True}]})
    # the driver thread reports the failure before connect() has returned
    for sync in (False, True):
        for variant in range(2 if tier == 'quick' else 6):
            n += 1
            plans.append({'seed': 903000 + n, 'scenario': 'directed-error-inside-connect',
                          'knobs': {'line_mean': [0, 10, 3, 40, 3, 10][variant], 'p_stall': 0.0, 'stall_window': 0.02,
                                    'needs_resending': True, 'lat': (0.0005, 0.003)}, 'device': dev,
                          'ops': [{'uri': 'good', 'sync': sync, 'close': None, 'final': False,
                                   'fail': {'after': 0, 'mode': 'driver', 'block': 0, 'in_connect': True}},
                                  {'uri': 'good', 'sync': sync, 'fail': None, 'close': None, 'final': True}]})
    # close_link from a user thread racing a link error that is reported at the same moment (the schedule varies
    # with the seed): both handlers test cf.link and then use it
    for k in (0, 1, 2, 3):
        for phase in ('requested', 'link'):
            for v in range(6 if tier == 'quick' else 40):
                n += 1
                plans.append({'seed': 905000 + n, 'scenario': 'directed-close-vs-error',
                              'knobs': {'line_mean': 3, 'p_stall': 0.3 if v % 2 else 0.0, 'stall_window': 0.02,
                                        'needs_resending': True, 'lat': (0.0, 0.0)},
                              'device': dev,
                              'ops': [{'uri': 'good', 'sync': False, 'final': False,
                                       'fail': {'after': k, 'mode': 'driver', 'block': 0},
                                       'close': {'phase': phase, 'delay': 0.0, 'thread': 'user'}},
                                      {'uri': 'good', 'sync': False, 'fail': None, 'close': None, 'final': True}]})
    return plans


URI = {'good': 'sim://cf', 'unknown': 'bogus://1/2', 'malformed': 'sim:/', 'nodevice': 'sim://nobody',
       'raise': 'sim://cf'}


def execute(ctx):
    from cflib.crazyflie import Crazyflie
    from cflib.crazyflie.syncCrazyflie import SyncCrazyflie
    plan = ctx.plan
    sim = ctx.sim
    radio = plan.get('link') == 'radio'
    # (each run is a fresh forked process) the real driver stacks spin at the radio / USB polling rate: a shorter bound
    # keeps the wall time of a run that has to wait for a bound in check
    globals()['BOUND'] = 8.0 if plan.get('link') in ('radio', 'usb') else 30.0
    if radio:
        import cflib.crtp.radiodriver as rd
        from world import gen as wgen2
        from world.radiocf import RadioWorld
        dev = wgen2.build_device(sim, plan['device'])
        w = RadioWorld(sim, ctx.faults, dev, airtime=ctx.knobs.get('airtime', 0.002), safelink=ctx.knobs.get('safelink', True))
        w.install()
        rd.set_retries_before_disconnect(ctx.knobs.get('retries', 20))
        rd.set_retries(1)
        w.reject_connect = []
    elif plan.get('link') == 'usb':
        from world import gen as wgen2
        from world.usbcf import UsbWorld
        dev = wgen2.build_device(sim, plan['device'])
        w = UsbWorld(sim, ctx.faults, dev, lat=ctx.knobs.get('lat', (0.0005, 0.003))[0] or 0.0002)
        w.install()
    else:
        w, devs = common.make_world(ctx, {'cf': plan['device']})
        dev = devs['cf']
    hist = []
    w.hist = hist
    ctx.uri_map = dict(URI)
    if radio:
        ctx.uri_map.update({'good': 'radio://0/80/2M/E7E7E7E7E7', 'nodevice': 'radio://0/81/2M/E7E7E7E7E7',
                            'malformed': 'radio:/', 'raise': 'bogus://x'})
    if plan.get('link') == 'usb':
        ctx.uri_map.update({'good': 'usb://0', 'nodevice': 'usb://1', 'malformed': 'usb:/', 'raise': 'usb://0'})
    state = {}
    ctx.pending = []

    def scenario():
        cf = Crazyflie()
        state['cf'] = cf
        rec = Recorder2(ctx, cf, hist, dev)
        w.on_link_close = rec.probe_dispatcher
        for meth in ('open_link', 'close_link'):
            def wrap(orig, meth=meth):
                def w(*a, **k):
                    rec.note('call:cf.' + meth)
                    try:
                        return orig(*a, **k)
                    finally:
                        rec.note('ret:cf.' + meth)
                return w
            setattr(cf, meth, wrap(getattr(cf, meth)))
        for si, s in enumerate(plan['ops']):
            run_session(ctx, w, dev, cf, rec, si, s, SyncCrazyflie)
            if any(p[1] in ('5', '6') for p in ctx.pending):
                break
        P.sim_sleep(1.5)

    verdict = sim.run(scenario)
    if verdict[0] in ('deadlock', 'timeout', 'livelock'):
        from simkit.harness import hang_signature
        sg, msg = hang_signature(verdict)
        if verdict[0] == 'livelock':
            # attributed to the attempt in progress, so that it carries that attempt's history tags
            si = sum(1 for e in hist if e[2] == 'session') - 1
            ctx.pending.append((max(si, 0), '5', sg, msg, verdict[1]))
        else:
            ctx.violation('5', sg, msg, verdict[1])
    for name, exc, tb in sim.thread_deaths:
        ctx.violation('5', 'thread-died %s @%s' % (exc.split(':')[0], cflib_site(tb)),
                      'library thread %s died: %s' % (name, exc), tb)
    check_history(ctx, hist, plan)
    import os
    if os.environ.get('VERIF_DEBUG'):
        ctx.notes['hist'] = ['%d %.4f %s %s [%s]' % e for e in hist]
    ctx.notes['attempts'] = len(plan['ops'])


class Recorder2(common.Recorder):
    def __init__(self, ctx, cf, hist, dev):
        self.dev = dev
        self.tick = 0
        self.dispatch_begins = []
        self.td_start = None
        common.Recorder.__init__(self, ctx, cf, hist, on_event=self.on_event)
        cf.packet_received.callbacks.insert(0, self._dispatch_begin)

    def _dispatch_begin(self, pk):
        self.tick += 1
        self.dispatch_begins.append(self.tick)

    def probe_dispatcher(self, *a):
        # is the dispatcher thread in the middle of dispatching a packet while the link is torn down?
        ts = self.cf.incoming._ts
        w = ts.wait_what
        idle = ts.state in ('new', 'done') or (ts.state == 'blocked' and (
            w == 'simlink-inbox' or (isinstance(w, tuple) and w[0] == 'sleep' and w[1] == 1)))
        if not idle and ts.state == 'blocked':
            # a real driver: idle means blocked inside the driver's receive_packet()
            import sys
            f = sys._current_frames().get(ts.os_ident)
            while f is not None:
                if f.f_code.co_name == 'receive_packet' and '/cflib/crtp/' in f.f_code.co_filename:
                    idle = True
                    break
                if f.f_code.co_name == 'run' and f.f_code.co_filename.endswith('crazyflie/__init__.py'):
                    break
                f = f.f_back
        self.tick += 1
        if a:
            self.td_start = self.tick          # the driver starts closing
        elif not idle or self.td_start is None:
            pass
        elif any(self.td_start < b < self.tick for b in self.dispatch_begins):
            # the dispatcher took a packet that was queued when the driver closed and dispatched it while the library
            # was forgetting the link / running its disconnect handlers on another thread
            idle = False
            self.ctx.probe('dispatch began between driver close and the end of the disconnect handlers')
        if not a:
            self.td_start = None
        if not idle:
            self.note('teardown-during-dispatch', 'self' if self.ctx.sim.cur() is ts else 'other')
            self.ctx.probe('link torn down while the dispatcher was mid-dispatch')

    def on_event(self, name, args):
        cf = self.cf
        ctx = self.ctx
        if name in ('disconnected', 'connection_failed'):
            self.probe_dispatcher()
        if name == 'connected':
            kn = ctx.knobs
            if kn.get('extra_read_on_connected') and self.dev.param_toc and not self._stale():
                p0 = self.dev.param_toc[0]
                try:
                    cf.param.request_param_update(p0.key())
                    ctx.probe('parameter read requested from the connected callback')
                except Exception:
                    pass
            if kn.get('notify_during_download') and self.dev.v2 and self.dev.param_toc and not self._stale():
                dev = self.dev
                n0 = sum(1 for e in self.hist if e[2] == 'fully_connected')

                def note(k=[0]):
                    if sum(1 for e in self.hist if e[2] == 'fully_connected') == n0 and k[0] < 40 and cf.link is not None:
                        k[0] += 1
                        dev.notify_param(0)
                        ctx.sim.after(0.002, note)
                ctx.sim.after(0.001, note)
                ctx.probe('value-updated notifications during the value download')
            # clause 2: tables complete at the instant `connected` fires
            d = common.compare_log_toc(cf, self.dev) + common.compare_param_toc(cf, self.dev)
            if d and not self._stale():
                late(ctx, self._attempt(), '2', 'tables-incomplete-at-connected', 'at connected: %s' % d[:4])
        elif name == 'fully_connected':
            d = common.param_values_equal(cf, self.dev)
            if d and not self._stale():
                late(ctx, self._attempt(), '2', 'values-missing-at-fully-connected',
                     'at fully_connected: %s' % d[:4])

    def _attempt(self):
        return sum(1 for e in self.hist if e[2] == 'call:open_link') - 1

    def _stale(self):
        # a connected/fully_connected delivered after the attempt's disconnected is judged by clause 4 only
        for e in reversed(self.hist):
            if e[2] == 'connection_requested':
                return False
            if e[2] == 'disconnected':
                return True
        return False


def late(ctx, si, clause, sig, msg, detail=None):
    """Violations raised while a session runs get their context tags in check_history."""
    ctx.pending.append((si, clause, sig, msg, detail))


def run_session(ctx, w, dev, cf, rec, si, s, SyncCrazyflie):
    sim = ctx.sim
    uri = ctx.uri_map[s['uri']]
    if s['uri'] == 'raise':
        w.reject_connect.append('simulated driver failure in connect')
    if s.get('fail') and s['uri'] == 'good':
        w.fail_plan.append(dict(s['fail']))
    rec.note('session', si, s['uri'], 'sync' if s['sync'] else 'async')
    marks = {'n': len(rec.hist)}

    def seen(kind):
        return any(e[2] == kind for e in rec.hist[marks['n']:])

    def attempt_over():
        return seen('connection_failed') or seen('disconnected')

    phase_pred = {'requested': lambda: seen('connection_requested'),
                  'link': lambda: seen('link_established'),
                  'connected': lambda: seen('connected'),
                  'full': lambda: seen('fully_connected'),
                  'time': lambda: seen('connection_requested')}
    closer = None
    scf = SyncCrazyflie(uri, cf=cf) if s['sync'] else None

    def do_close(who):
        rec.note('user:close', who)
        if scf is not None and who == 'main':
            ok, _, exc = ctx.bounded(scf.close_link, BOUND, 'scf.close_link')
        else:
            ok, _, exc = ctx.bounded(cf.close_link, BOUND, 'cf.close_link')
        rec.note('user:close-ret', who, 'hang' if not ok else ('raised' if exc else 'ok'))
        if ok and exc is not None:
            import traceback
            tb = ''.join(traceback.format_exception(type(exc), exc, exc.__traceback__))
            late(ctx, si, '5', 'api-raised close_link %s @%s' % (type(exc).__name__, cflib_site(tb)),
                 'close_link raised %r' % (exc,), tb)
        if not ok:
            late(ctx, si, '5', 'close_link-hang', 'close_link did not return within %gs after %s; stacks: %s'
                          % (BOUND, s, ctx.stack_of('bounded:')[:1]), ctx.stack_of('bounded:'))

    c = s.get('close')
    if c and c['thread'] == 'user':
        def user():
            common.wait_until(sim, lambda: phase_pred[c['phase']]() or attempt_over(), BOUND, 0.001)
            if c['delay']:
                P.sim_sleep(c['delay'])
            ctx.probe('user-thread close during %s' % c['phase'])
            do_close('user')
        closer = P.SimThread(target=user, name='user-close-%d' % si)
        closer.daemon = True
        closer.start()

    rec.note('call:open_link', si)
    if scf is not None:
        ok, _, exc = ctx.bounded(scf.open_link, 2 * BOUND, 'scf.open_link')
        rec.note('ret:open_link', 'hang' if not ok else ('raised' if exc else 'ok'))
        if not ok:
            late(ctx, si, '5', 'sync-open_link-hang', 'SyncCrazyflie.open_link did not return or raise within '
                          '%gs (session %r)' % (2 * BOUND, s), ctx.stack_of('bounded:scf.open_link'))
            return
        if exc is None and s['final']:
            ok, _, exc2 = ctx.bounded(scf.wait_for_params, 2 * BOUND, 'scf.wait_for_params')
            if not ok:
                late(ctx, si, '6', 'final-wait_for_params-hang', 'fault-free wait_for_params did not return',
                     [(t['thread'], t['waiting_on'], t['stack'][-900:]) for t in sim.describe_threads()])
                return
    else:
        ok, _, exc = ctx.bounded(lambda: cf.open_link(uri), BOUND, 'cf.open_link')
        rec.note('ret:open_link', 'hang' if not ok else ('raised' if exc else 'ok'))
        if not ok:
            late(ctx, si, '5', 'open_link-hang', 'Crazyflie.open_link did not return within %gs' % BOUND,
                          ctx.stack_of('bounded:cf.open_link'))
            return
        if exc is not None:
            late(ctx, si, '1', 'open_link-raised %s' % type(exc).__name__,
                          'Crazyflie.open_link raised %r' % (exc,))

    if s['final']:
        if not common.wait_until(sim, lambda: seen('fully_connected'), 2 * BOUND, 0.01):
            late(ctx, si, '6', 'final-attempt-not-fully-connected',
                          'the final fault-free attempt did not reach fully_connected within %gs; events %s' %
                          (2 * BOUND, [e[2] for e in rec.hist[marks['n']:]][:20]),
                          [(t['thread'], t['waiting_on'], t['stack'][-900:]) for t in sim.describe_threads()])
            return
        ctx.probe('reconnected after %d earlier sessions' % si)
        do_close('main')
        return

    if c and c['thread'] == 'main':
        common.wait_until(sim, lambda: phase_pred[c['phase']]() or attempt_over(), BOUND, 0.001)
        if c['delay']:
            P.sim_sleep(c['delay'])
        ctx.probe('main-thread close during %s' % c['phase'])
        do_close('main')
    elif closer is not None:
        closer.join(3 * BOUND)
    else:
        # wait for the attempt to end by itself (failure) or to complete
        common.wait_until(sim, lambda: attempt_over() or seen('fully_connected'), BOUND, 0.01)
        if not attempt_over():
            do_close('main')
    # the error report of this session must have returned before the next session starts
    def reports_done():
        ev = rec.hist[marks['n']:]
        return sum(1 for e in ev if e[2] == 'link_error_reported') == sum(1 for e in ev if e[2] == 'link_error_returned')
    if not common.wait_until(sim, reports_done, BOUND, 0.001):
        late(ctx, si, '5', 'link-error-callback-hang', 'the link error callback did not return within %gs' % BOUND,
             ctx.stack_of('simlink-') + ctx.stack_of('bounded:'))
    # clause 5: disconnected state reached in bounded time after a link error report or a close
    if not (seen('link_error_reported') or seen('call:cf.close_link')):
        rec.note('session-end', si)
        return
    if not common.wait_until(sim, lambda: cf.state == common.STATE_DISCONNECTED and cf.link is None, BOUND, 0.01):
        late(ctx, si, '5', 'not-disconnected', 'state=%r link=%r %gs after the attempt ended (session %r)'
                      % (cf.state, cf.link, BOUND, s))
    rec.note('session-end', si)


def check_history(ctx, hist, plan):
    """Clauses 1, 3, 4 over the recorded history.

    Signatures carry context tags so that a known finding only matches the specific racy history
    it was recorded for:
      close-during-open        Crazyflie.close_link ran while Crazyflie.open_link was still executing
      error-during-open        the link error was reported while open_link was still executing
      error-races-first-packet the error was reported after the first packet reached the driver but before /
                               while link_established was being signalled
      after-aborted-session    an earlier attempt on this object ended before fully_connected
    """
    attempts = []
    cur = None
    for e in hist:
        if e[2] == 'call:open_link':
            cur = []
            attempts.append(cur)
        if cur is not None:
            cur.append(e)
    sess = [e for e in hist if e[2] == 'session']
    aborted_before = False
    tainted = False
    for ai, ev in enumerate(attempts):
        names = [e[2] for e in ev]
        seqs = {}
        for e in ev:
            seqs.setdefault(e[2], []).append(e[0])

        def first(n, default=None):
            return seqs.get(n, [default])[0]
        order = ['link_established', 'connected', 'fully_connected']
        prog = [n for n in names if n in order]
        nfail = names.count('connection_failed')
        ncalls = names.count('call:cf.close_link')
        nrets = names.count('ret:cf.close_link')
        rep = [e for e in ev if e[2] == 'link_error_reported']
        ret_open = first('ret:cf.open_link', 1 << 60)
        first_pk = first('first_packet_delivered')
        le = first('link_established')
        tags = []
        if any(s < ret_open for s in seqs.get('call:cf.close_link', [])):
            tags.append('close-during-open')
        if any(r[0] < ret_open for r in rep):
            tags.append('error-during-open')
        exp_lost = 0
        ambiguous = False
        for r in rep:
            rret = [x for x in seqs.get('link_error_returned', []) if x > r[0]]
            rret = rret[0] if rret else 1 << 60
            if le is not None and le < r[0]:
                exp_lost += 1
            elif first_pk is not None and first_pk < r[0]:
                ambiguous = True
            if le is not None and r[0] < le < rret:
                ambiguous = True
        if ambiguous:
            tags.append('error-races-first-packet')
        td = [e[3][0] if e[3] else 'other' for e in ev if e[2] == 'teardown-during-dispatch']
        by_dispatcher = bool(td) and all(x == 'self' for x in td)
        if td and not by_dispatcher:
            tags.append('teardown-during-dispatch')
        if tainted:
            tags.append('after-teardown-during-dispatch')
        # raced attempts: clause-level signature with the primary race tag (see DESIGN 6.4)
        raced = bool(tags)
        tag = (' [' + tags[0] + ']') if tags else (' [teardown-by-dispatcher]' if by_dispatcher else
                                                  ' [after-aborted-session]' if aborted_before else '')
        callers = [n for n in names if n in common.CALLERS]
        mark = len(ctx.violations)
        # clause 1
        if names.count('connection_requested') != 1 or callers[0] != 'connection_requested':
            ctx.violation('1', 'connection_requested-not-first' + tag, 'attempt %d: %s' % (ai, brief(names)))
        if nfail > 1:
            ctx.violation('1', 'connection_failed-twice' + tag, 'attempt %d: %s' % (ai, brief(names)))
        if nfail and prog:
            ctx.violation('1', 'connection_failed-and-progress' + tag, 'attempt %d: %s' % (ai, brief(names)))
        for n in order:
            if names.count(n) > 1:
                ctx.violation('1', '%s-twice' % n + tag, 'attempt %d: %s' % (ai, brief(names)))
        if prog != order[:len(prog)] and all(names.count(n) <= 1 for n in order):
            ctx.violation('1', 'progress-out-of-order' + tag, 'attempt %d: %s' % (ai, brief(names)))
        # clause 3
        ndisc = names.count('disconnected')
        nlost = names.count('connection_lost')
        if ncalls == nrets:                 # every close call returned (hangs are reported by clause 5)
            lo = ncalls + exp_lost
            hi = lo + (1 if ambiguous else 0)
            if not (lo <= ndisc <= hi):
                ctx.violation('3', 'disconnected-count' + tag,
                              'attempt %d: %d disconnected for %d close_link calls + %d link failures after '
                              'the first packet: %s' % (ai, ndisc, ncalls, exp_lost, brief(names)))
            if not (exp_lost <= nlost <= exp_lost + (1 if ambiguous else 0)):
                ctx.violation('3', 'connection_lost-count' + tag, 'attempt %d: %d connection_lost, expected %d: %s'
                              % (ai, nlost, exp_lost, brief(names)))
        if rep and not exp_lost and not ambiguous and not nfail and first_pk is None and \
                not any(c < r[0] for c in seqs.get('call:cf.close_link', []) for r in rep):
            ctx.violation('1', 'no-connection_failed' + tag, 'attempt %d: link failed before any packet but no '
                          'connection_failed: %s' % (ai, brief(names)))
        for i, e in enumerate(ev):
            if e[2] == 'connection_lost':
                if not any(x[2] == 'disconnected' and x[4] == e[4] for x in ev[:i]):
                    ctx.violation('3', 'connection_lost-without-disconnected' + tag,
                                  'attempt %d: %s' % (ai, brief(names)))
        # clause 4: nothing of the attempt after its first disconnected
        if 'disconnected' in seqs:
            d0 = seqs['disconnected'][0]
            for n in order:
                for sq in seqs.get(n, []):
                    if sq > d0:
                        closing = any(c < sq for c in seqs.get('call:cf.close_link', []))
                        cause = 'close_link' if closing else 'link-error'
                        ctx.violation('4', '%s-after-disconnected (%s racing the dispatcher)%s' % (n, cause, tag),
                                      'attempt %d: %s delivered after the first disconnected: %s'
                                      % (ai, n, brief(names)))
        # bad URIs must fail
        if ai < len(sess) and sess[ai][3][1] in ('unknown', 'malformed', 'nodevice', 'raise'):
            if 'connection_failed' not in names:
                ctx.violation('1', 'bad-uri-no-connection_failed', 'uri kind %s: %s' % (sess[ai][3][1], brief(names)))
        for (si, clause, sig, msg, detail) in ctx.pending:
            if si == ai:
                ctx.violation(clause, sig + tag, msg, detail)
        if 'fully_connected' not in names:
            aborted_before = True
        if raced:
            # stale per-session state may survive into every later attempt on this object
            # (only a tear-down that ran concurrently with the dispatcher leaves such state behind)
            if 'teardown-during-dispatch' in tags or 'after-teardown-during-dispatch' in tags:
                tainted = True
        if raced and not os.environ.get('VERIF_C02_RAW'):
            n0 = mark
            # a blocking call that never returns is covered only where the race family explains it: after a concurrent
            # tear-down the set-up of a later attempt can stall for ever (connected "never"), so a blocking open waits
            # for ever; in the other families every blocking call still has to return
            stall_ok = 'teardown-during-dispatch' in tags or 'after-teardown-during-dispatch' in tags
            hard = ('C02/5 thread-died', 'C02/5 deadlock', 'C02/5 hang ', 'C02/5 api-raised', 'C02/5 close_link-hang',
                    'C02/5 open_link-hang', 'C02/5 link-error-callback-hang')
            if not stall_ok:
                hard = hard + ('C02/5 sync-open_link-hang',)
            for v in ctx.violations[n0:]:
                if not v['sig'].startswith(hard):
                    v['msg'] = '%s: %s' % (v['sig'], v['msg'])
                    v['sig'] = 'C02/race raced-attempt%s' % (tag,)
    for (si, clause, sig, msg, detail) in ctx.pending:
        if si >= len(attempts):
            ctx.violation(clause, sig, msg, detail)


def brief(names):
    keep = [n for n in names if n in common.CALLERS or n.startswith('call:cf') or n.startswith('ret:cf')
            or n.startswith('link_error') or n == 'first_packet_delivered']
    return keep[:40]


def gen(seed):
    return gen_plan(seed)
