"""
C19 — swarm actions run once per Crazyflie with the right arguments and error report.

Real: Swarm (and, in the 'real' scenario, SyncCrazyflie/Crazyflie members over sim:// devices).
Stub: instrumented members through the library's factory seam, whose methods block on simulated primitives.
"""
import itertools
import random

from simkit import primitives as P
from simkit.harness import H, cflib_site
from world import gen as wgen
from . import common

ID = 'C19'
BUDGET = {'quick': 40, 'thorough': 600}
MINIMISE_OPS = True

EVIDENCE = {
    'rule': 'Each run builds a Swarm of 1-6 members (instrumented members through the factory seam, or real '
            'SyncCrazyflie members over simulated firmware) and executes a sequence of open_links / sequential / parallel / '
            'parallel_safe / close_links calls with seeded argument dictionaries (keys in shuffled order), a seeded subset of members whose action '
            'or link opening raises, and seeded blocking inside the actions; member threads interleave at line granularity.',
    'directed': 'every subset of failing members for swarm sizes 1..4 (5 in the thorough tier), for open_links and for '
                'parallel_safe',
    'real': ['Swarm (open_links, close_links, sequential, parallel, parallel_safe, _thread_function_wrapper, Reporter)',
             'SyncCrazyflie + Crazyflie in the real-member scenario'],
    'stub': ['instrumented members (factory seam)', 'SimLink/SimCF in the real-member scenario'],
    'assumptions': [
        'actions of a sequential call do not raise (the statement does not say what happens to the remaining members)',
        'the URIs are given as a list, so "iteration order of the given URIs" is the list order',
    ],
}


class ActionError(Exception):
    pass


def gen(seed):
    rng = random.Random(H(seed, 'plan'))
    knobs = common.sched_knobs(rng, allow_stall=False)
    n = rng.choice([1, 2, 3, 4, 6])
    real = rng.random() < 0.2
    if real:
        n = min(n, 3)
    uris = ['sim://m%d' % i for i in range(n)]
    rng.shuffle(uris)
    ops = []
    opened = False
    for _ in range(rng.choice([2, 4, 7])):
        k = rng.choice(['open', 'open', 'sequential', 'parallel', 'parallel_safe', 'parallel_safe', 'close'])
        fails = [u for u in uris if rng.random() < 0.25]
        delays = {u: rng.choice([0, 0, 0.01, 0.1]) for u in uris}
        args = rng.choice([None, 'one', 'two'])
        if k == 'open':
            ops.append(['open', fails if rng.random() < 0.5 else [], delays])
        elif k == 'close':
            ops.append(['close'])
        elif k == 'sequential':
            ops.append(['sequential', [], delays, args])
        else:
            ops.append([k, fails, delays, args])
    return {'seed': seed, 'scenario': 'swarm-real' if real else 'swarm-fake', 'knobs': knobs, 'uris': uris, 'ops': ops}


def directed(tier):
    plans = []
    n = 0
    for size in range(1, 5 if tier == 'quick' else 6):
        uris = ['sim://m%d' % i for i in range(size)]
        for r in range(0, size + 1):
            for sub in itertools.combinations(uris, r):
                for what in ('open', 'parallel_safe'):
                    n += 1
                    ops = [['open', list(sub), {}]] if what == 'open' else [['open', [], {}],
                                                                           ['parallel_safe', list(sub), {}, 'one']]
                    ops.append(['open', [], {}])
                    plans.append({'seed': 999000 + n, 'scenario': 'directed-failing-subset', 'uris': uris, 'ops': ops,
                                  'knobs': {'line_mean': 0, 'p_stall': 0.0}})
    return plans


def execute(ctx):
    from cflib.crazyflie.swarm import Swarm
    plan = ctx.plan
    sim = ctx.sim
    ctx.notes['nontrivial'] = plan['scenario'].startswith('directed')
    uris = plan['uris']
    real = plan['scenario'] == 'swarm-real'
    log = []           # (seq, t, kind, uri, extra)
    st = {'fail_open': set(), 'open_delay': {}}

    def note(kind, uri, extra=None):
        log.append((len(log), sim.now, kind, uri, extra))
        ctx.obs(kind, uri)

    class Member:
        def __init__(self, uri):
            self.uri = uri
            self.opened = False

        def open_link(self):
            note('open-begin', self.uri)
            d = st['open_delay'].get(self.uri, 0)
            if d:
                P.sim_sleep(d)
            if self.uri in st['fail_open']:
                note('open-raise', self.uri)
                raise ActionError('cannot open %s' % self.uri)
            self.opened = True
            note('open-end', self.uri)

        def close_link(self):
            note('close', self.uri)
            self.opened = False

    class Factory:
        def construct(self, uri):
            m = Member(uri)
            members[uri] = m
            return m

    members = {}
    devs = {}
    if real:
        from cflib.crazyflie import Crazyflie
        from cflib.crazyflie.syncCrazyflie import SyncCrazyflie
        rng = random.Random(H(ctx.seed, 'devs'))
        descs = {u[len('sim://'):]: wgen.gen_device(rng, n_log=1, n_param=2, version=10, mems=[]) for u in uris}
        w, devs = common.make_world(ctx, descs)
        st['world'] = w

        class RealFactory:
            def construct(self, uri):
                scf = SyncCrazyflie(uri, cf=Crazyflie())
                members[uri] = scf
                orig_open, orig_close = scf.open_link, scf.close_link

                def open_link():
                    note('open-begin', uri)
                    try:
                        orig_open()
                    except Exception:
                        note('open-raise', uri)
                        raise
                    note('open-end', uri)

                def close_link():
                    note('close', uri)
                    orig_close()
                scf.open_link, scf.close_link = open_link, close_link
                return scf
        factory = RealFactory()
    else:
        factory = Factory()

    results = []        # per op: dict

    def scenario():
        swarm = Swarm(uris, factory=factory)
        if list(swarm._cfs.keys()) != list(uris):
            ctx.violation('2', 'member-order-differs', 'members %r for uris %r' % (list(swarm._cfs.keys()), uris))
        is_open = False
        for oi, op in enumerate(plan['ops']):
            k = op[0]
            r = {'op': op, 'i0': len(log), 'was_open': is_open}
            if k == 'open':
                st['fail_open'] = set(op[1])
                st['open_delay'] = op[2]
                if real:
                    # a failing member: its device disappears (connection_failed -> SyncCrazyflie raises)
                    w = st['world']
                    for u in uris:
                        name = u[len('sim://'):]
                        if u in st['fail_open']:
                            w.devices.pop(name, None)
                        else:
                            w.devices[name] = devs[name]
                ok, _, exc = ctx.bounded(swarm.open_links, 300.0, 'open_links')
                r['hang'] = not ok
                r['exc'] = exc
                if ok and exc is None:
                    is_open = True
                elif ok and not is_open:
                    is_open = False
            elif k == 'close':
                ok, _, exc = ctx.bounded(swarm.close_links, 120.0, 'close_links')
                r['hang'] = not ok
                r['exc'] = exc
                is_open = False
            else:
                fails, delays, args = set(op[1]), op[2], op[3]
                args_dict = None
                # the argument dictionary is the caller's: its key order is unrelated to the order of the URIs
                keys = list(uris)
                ctx.work.shuffle(keys)
                if args == 'one':
                    args_dict = {u: ['arg-%s-%d' % (u, oi)] for u in keys}
                elif args == 'two':
                    args_dict = {u: [oi, {'uri': u}] for u in keys}

                def action(scf, *a, oi=oi, fails=fails, delays=delays):
                    uri = [u for u, m in members.items() if m is scf]
                    uri = uri[0] if uri else None
                    note('act-begin', uri, (oi, a))
                    d = delays.get(uri, 0) if uri else 0
                    if d:
                        P.sim_sleep(d)
                    if uri in fails:
                        note('act-raise', uri, oi)
                        raise ActionError('action failed on %s' % uri)
                    note('act-end', uri, oi)
                fn = getattr(swarm, k)
                ok, _, exc = ctx.bounded(lambda: fn(action, args_dict) if args_dict is not None else fn(action),
                                         120.0, k)
                r['hang'] = not ok
                r['exc'] = exc
                r['args_dict'] = args_dict
            r['i1'] = len(log)
            r['is_open'] = is_open
            r['swarm_open'] = swarm._is_open
            results.append(r)
            if r['hang']:
                ctx.violation('3', '%s-hang' % k, '%s did not return' % k, ctx.stack_of('bounded:'))
                return
            P.sim_sleep(0.2)
            r['i2'] = len(log)
        if real:
            ctx.bounded(swarm.close_links, 120.0, 'final-close')
            P.sim_sleep(0.3)

    verdict = sim.run(scenario)
    if verdict[0] in ('deadlock', 'timeout', 'livelock'):
        from simkit.harness import hang_signature
        sg, msg = hang_signature(verdict)
        ctx.violation('3', sg, msg, verdict[1])
    for name, exc, tb in sim.thread_deaths:
        ctx.violation('3', 'thread-died %s @%s' % (exc.split(':')[0], cflib_site(tb)),
                      'thread %s died: %s' % (name, exc), tb)
    oracle(ctx, plan, uris, log, results, members, real)


def oracle(ctx, plan, uris, log, results, members, real):
    for r in results:
        op = r['op']
        k = op[0]
        ev = log[r['i0']:r['i1']]
        late = log[r['i1']:r.get('i2', r['i1'])]
        exc = r.get('exc')
        if k == 'open':
            if r['was_open']:
                if exc is None:
                    ctx.violation('4', 'second-open-accepted', 'open_links on an open swarm did not raise')
                if any(e[2].startswith('open') for e in ev):
                    ctx.violation('4', 'second-open-reopened-links', 'open_links on an open swarm opened links again')
                continue
            fails = set(op[1])
            begins = [e[3] for e in ev if e[2] == 'open-begin']
            if sorted(begins) != sorted(uris):
                ctx.violation('1', 'open-not-once-per-member', 'open_link called for %r, members %r' % (begins, uris))
            if fails:
                ctx.probe('open_links with a failing member')
                if exc is None:
                    ctx.violation('4', 'failed-open-not-raised', 'members %r failed to open but open_links returned normally'
                                  % (sorted(fails),))
                closes = [e[3] for e in ev if e[2] == 'close']
                if sorted(set(closes)) != sorted(uris):
                    ctx.violation('4', 'not-all-closed-after-failed-open', 'close_link called for %r, members %r'
                                  % (sorted(set(closes)), uris))
                last_open = max([e[0] for e in ev if e[2] in ('open-end', 'open-raise')], default=-1)
                first_close = min([e[0] for e in ev if e[2] == 'close'], default=1 << 60)
                if first_close < last_open:
                    ctx.violation('3', 'closed-before-all-opens-finished', 'close_links began before every open_link had '
                                  'returned')
                if r['swarm_open']:
                    ctx.violation('4', 'swarm-marked-open-after-failed-open', '')
                if real:
                    for u, scf in members.items():
                        if scf.is_link_open() or scf.cf.link is not None:
                            ctx.violation('4', 'link-left-open-after-failed-open', 'member %s: is_link_open=%r link=%r'
                                          % (u, scf.is_link_open(), scf.cf.link))
            else:
                if exc is not None:
                    ctx.violation('4', 'open-raised-without-failure %s' % type(exc).__name__, 'open_links raised %r' % (exc,))
                if not r['swarm_open']:
                    ctx.violation('4', 'swarm-not-open-after-open', '')
            if late:
                ctx.violation('3', 'activity-after-return (open)', 'events after open_links returned: %r' % (late[:3],))
        elif k in ('sequential', 'parallel', 'parallel_safe'):
            fails = set(op[1])
            oi = results.index(r)
            begins = [e for e in ev + late if e[2] == 'act-begin']
            per = {}
            for e in begins:
                per.setdefault(e[3], []).append(e)
            if sorted(per) != sorted(uris) or any(len(v) != 1 for v in per.values()):
                ctx.violation('1', 'action-not-once-per-member (%s)' % k, 'action ran for %r, members %r'
                              % (sorted((u, len(v)) for u, v in per.items() if u is not None) +
                                 [e[3] for e in begins if e[3] is None], uris))
                continue
            # arguments
            for u in uris:
                a = per[u][0][4][1]
                want = tuple(r['args_dict'][u]) if r.get('args_dict') else ()
                if tuple(a) != want:
                    ctx.violation('1', 'wrong-arguments (%s)' % k, 'member %s got %r, its entry is %r' % (u, a, want))
                    break
            ends = [e for e in ev + late if e[2] in ('act-end', 'act-raise')]
            if late and any(e[2].startswith('act') for e in late):
                ctx.violation('3', 'returned-before-all-actions-finished (%s)' % k, 'events after the call returned: %r'
                              % ([(e[2], e[3]) for e in late][:4],))
            if k == 'sequential':
                order = [e[3] for e in begins]
                if order != list(uris):
                    ctx.violation('2', 'sequential-order-differs', 'ran %r, uris %r' % (order, uris))
                # one at a time
                active = 0
                for e in ev:
                    if e[2] == 'act-begin':
                        active += 1
                        if active > 1:
                            ctx.violation('2', 'sequential-overlap', 'two actions were active at once')
                            break
                    elif e[2] in ('act-end', 'act-raise'):
                        active -= 1
                if exc is not None:
                    ctx.violation('2', 'sequential-raised %s' % type(exc).__name__, '%r' % (exc,))
            elif k == 'parallel':
                if exc is not None:
                    ctx.violation('3', 'parallel-raised %s' % type(exc).__name__, 'parallel raised %r' % (exc,))
                if len(uris) > 1:
                    ctx.probe('parallel action')
            else:
                if fails:
                    ctx.probe('parallel_safe with a failing member')
                    if exc is None:
                        ctx.violation('3', 'parallel_safe-did-not-raise', 'actions of %r raised' % (sorted(fails),))
                    else:
                        cause = exc.__cause__
                        if not isinstance(cause, ActionError) or not any(
                                str(cause) == 'action failed on %s' % u for u in fails):
                            ctx.violation('3', 'parallel_safe-wrong-cause', '__cause__ is %r, raised were for %r'
                                          % (cause, sorted(fails)))
                elif exc is not None:
                    ctx.violation('3', 'parallel_safe-raised-without-failure %s' % type(exc).__name__, '%r' % (exc,))
        elif k == 'close':
            closes = [e[3] for e in ev if e[2] == 'close']
            if sorted(closes) != sorted(uris):
                ctx.violation('4', 'close-not-once-per-member', 'close_link called for %r' % (closes,))
            if r['swarm_open']:
                ctx.violation('4', 'swarm-open-after-close', '')
