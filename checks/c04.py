"""
C04 — parameter writes and reads are typed correctly and never cross-attributed.

Real: Param, _ParamUpdater thread, dispatcher, Crazyflie.send_packet.  Stub: SimLink (FIFO, no loss),
SimCF parameter store with reply delays and unsolicited value-updated notifications.
"""
import random
import struct

from simkit import primitives as P
from simkit.harness import H, cflib_site
from world import gen as wgen
from world.simcf import PARAM_TYPES
from . import common

ID = 'C04'
BUDGET = {'quick': 50, 'thorough': 900}
MINIMISE_OPS = True

EVIDENCE = {
    'rule': 'Each run connects to a generated firmware (all ten parameter types, RO / extended / persistent markers, both '
            'protocol generations); 1-4 user threads then issue set_value (boundary, random, out-of-range, RO, unknown), '
            'request_param_update, get_value, persistent store/clear/get_state and get_default_value with several queries '
            'outstanding, while the device delays replies and emits unsolicited value-updated notifications.',
    'directed': 'for every parameter type: min, max, min-1, max+1 (and +-inf/nan-free float extremes) through set_value; '
                'single default / persistent / read queries issued while the updater is idle on a zero-latency link under '
                '24 (200) PCT priority schedules',
    'real': ['Param', '_ParamUpdater', 'ParamTocElement', 'Toc', '_IncomingPacketHandler', 'Crazyflie.send_packet'],
    'stub': ['SimLink (FIFO, lossless; needs_resending False in the strict configuration, True with reply delays in a '
             'separate one)', 'SimCF parameter service'],
    'assumptions': [
        'default values whose first encoded byte is 0x02 are not generated: get_default_value cannot tell them from the '
        'ENOENT status (the statement promises delivery, not content, of that reply)',
        'issue order = the order in which requests are put on the updater queue (observed at the queue seam)',
        'two outstanding queries for the same parameter and command are indistinguishable and are not generated',
        'on links that need resending a reply may be late enough to make the library resend; the duplicate answers are '
        'then judged only through the final cache == device clause',
    ],
}


def in_range_value(rng, code):
    return wgen.param_value(rng, code)


def out_of_range_value(rng, code):
    fmt = PARAM_TYPES[code][1]
    if code == 0x06:
        return rng.choice([1e39, -1e39])
    if code == 0x07:
        return None
    size = struct.calcsize(fmt)
    bits = 8 * size
    signed = code < 0x08
    lo, hi = (-(1 << (bits - 1)), (1 << (bits - 1)) - 1) if signed else (0, (1 << bits) - 1)
    return rng.choice([lo - 1, hi + 1, lo - rng.randint(1, 1000), hi + rng.randint(1, 1 << 20)])


def fix_device(dev, rng):
    """Make defaults unambiguous for get_default_value (first byte != ENOENT) and stored != default."""
    for p in dev['param']:
        code = p[2]
        fmt = PARAM_TYPES[code][1]
        for _ in range(50):
            if struct.pack(fmt, p[7])[0] != 2:
                break
            p[7] = wgen.param_value(rng, code)
        else:
            p[7] = 0 if code not in (6, 7) else 0.0


def gen(seed):
    rng = random.Random(H(seed, 'plan'))
    knobs = common.sched_knobs(rng)
    strict = rng.random() < 0.6
    knobs['needs_resending'] = not strict
    knobs['lat'] = rng.choice([(0.0005, 0.003), (0.0, 0.0), (0.002, 0.02)])
    knobs['rates'] = {'param_delay': rng.choice([0.0, 0.1, 0.4])}
    knobs['delay_max'] = rng.choice([0.05, 0.15]) if strict else rng.choice([0.05, 0.3, 0.6])
    knobs['notify_period'] = rng.choice([0, 0, 0.003, 0.02])
    version = rng.choice([10, 10, 10, 7, 4, 3, 0])
    dev = wgen.gen_device(rng, n_log=1, n_param=rng.choice([1, 2, 3, 5, 8, 13]), version=version, mems=[],
                          ext_rate=0.5)
    fix_device(dev, rng)
    nthreads = rng.choice([1, 2, 3, 4])
    ops = []
    nparam = len(dev['param'])
    for _ in range(rng.choice([3, 8, 15, 25, 40])):
        i = rng.randrange(nparam)
        p = dev['param'][i]
        name = '%s.%s' % (p[0], p[1])
        kind = rng.choice(['set', 'set', 'set', 'read', 'read', 'get', 'pstate', 'pstore', 'pclear', 'default',
                           'set-oor', 'set-unknown'])
        op = {'t': rng.randrange(nthreads), 'op': kind, 'name': name, 'gap': rng.choice([0, 0, 0.001, 0.01, 0.05])}
        if kind == 'set':
            v = in_range_value(rng, p[2])
            op['value'] = v if rng.random() < 0.8 or isinstance(v, float) else str(v)
        elif kind == 'set-oor':
            v = out_of_range_value(rng, p[2])
            if v is None:
                continue
            op['value'] = v
        elif kind == 'set-unknown':
            op['name'] = rng.choice(['nosuch.param', p[0] + '.nosuchname'])
            op['value'] = 1
        ops.append(op)
    return {'seed': seed, 'scenario': 'param-strict' if strict else 'param-resend', 'knobs': knobs, 'device': dev,
            'ops': ops, 'nthreads': nthreads}


def directed(tier):
    plans = []
    rng = random.Random(404)
    n = 0
    for version in (10, 3):
        params = []
        for code in sorted(PARAM_TYPES):
            params.append(['g', 't%02x' % code, code, wgen.param_value(rng, code), False, False, False,
                           0 if code not in (6, 7) else 0.0, None])
        dev = {'version': version, 'legacy_source': False, 'log': [['l', 'v', 1]], 'param': params, 'mems': [],
               'log_crc': None, 'param_crc': None, 'value_seed': 1}
        ops = []
        for p in params:
            code = p[2]
            fmt = PARAM_TYPES[code][1]
            name = 'g.' + p[1]
            if code in (6, 7):
                vals = [0.0, 3.4028234663852886e+38, -3.4028234663852886e+38] if code == 6 else \
                    [0.0, 1.7976931348623157e+308, -1.7976931348623157e+308]
                bad = [1e39] if code == 6 else []
            else:
                bits = 8 * struct.calcsize(fmt)
                lo, hi = (-(1 << (bits - 1)), (1 << (bits - 1)) - 1) if code < 8 else (0, (1 << bits) - 1)
                vals, bad = [lo, hi, 0], [lo - 1, hi + 1]
            for v in vals:
                ops.append({'t': 0, 'op': 'set', 'name': name, 'value': v, 'gap': 0})
            for v in bad:
                ops.append({'t': 0, 'op': 'set-oor', 'name': name, 'value': v, 'gap': 0})
        n += 1
        plans.append({'seed': 940000 + n, 'scenario': 'directed-type-extremes', 'device': dev, 'ops': ops, 'nthreads': 1,
                      'knobs': {'line_mean': 0, 'p_stall': 0.0, 'needs_resending': False, 'lat': (0.001, 0.001),
                                'rates': {}, 'notify_period': 0}})
    # single queries issued while the updater is idle, on a zero-latency link, under priority (PCT) schedules: with the
    # calling thread at the lowest priority the answer is dispatched before the caller has finished issuing the request
    params = [['q', 'p%d' % i, 2, i + 1, False, True, True, 7, 100 + i if i % 2 else None] for i in range(3)]
    dev = {'version': 10, 'legacy_source': False, 'log': [['l', 'v', 1]], 'param': params, 'mems': [],
           'log_crc': None, 'param_crc': None, 'value_seed': 2}
    for v in range(24 if tier == 'quick' else 200):
        ops = []
        for i in range(3):
            for kind in ('default', 'pstate', 'read', 'pstore', 'default'):
                ops.append({'t': 0, 'op': kind, 'name': 'q.p%d' % i, 'gap': 0.05})
        n += 1
        plans.append({'seed': 940000 + n, 'scenario': 'directed-idle-queries-pct', 'device': dev, 'ops': ops,
                      'nthreads': 1,
                      'knobs': {'line_mean': 1, 'p_stall': 0.0, 'needs_resending': False, 'lat': (0.0, 0.0),
                                'rates': {}, 'notify_period': 0, 'pct': [1, 2, 3][v % 3], 'pct_horizon': 6000},
                      'sched': {'alt': v}})
    return plans


def execute(ctx):
    from cflib.crazyflie import Crazyflie
    plan = ctx.plan
    sim = ctx.sim
    w, devs = common.make_world(ctx, {'cf': plan['device']})
    dev = devs['cf']
    dmax = ctx.knobs.get('delay_max', 0.05)
    dev.reply_delay = lambda port, ch, data: (ctx.faults.amount('param_delay', 0.005, dmax)
                                              if port == 2 and ch in (1, 2, 3) and st.get('armed') else 0.0)
    ctx.notes['nontrivial'] = plan['scenario'].startswith('directed')
    v2 = dev.v2
    st = {}
    ev = []                 # ('put', pkid, chan, data) / ('tx', pkid) / ('rx', idx, header, data) / ('cb', kind, name, val, rxidx)
    keep = []
    cur_rx = {'i': None}
    idx_of = {p.key(): i for i, p in enumerate(dev.param_toc)}
    calls = []              # (op, exception or None)
    qres = []               # persistent / default query results: (op index, name, kind, args)

    def on_uplink(link, pk):
        port = (pk.header >> 4) & 0xF
        if port == 2 and (pk.header & 3) in (1, 2, 3) and st.get('armed'):
            ev.append(('tx', id(pk), sim.now))
    w.on_uplink = on_uplink

    def scenario():
        cf = Crazyflie()
        got = {}
        cf.fully_connected.add_callback(lambda uri: got.__setitem__('full', 1))
        cf.open_link('sim://cf')
        if not common.wait_until(sim, lambda: 'full' in got, 120.0, 0.01):
            ctx.violation('0', 'never-fully-connected', 'handshake did not finish')
            return
        d = common.param_values_equal(cf, dev)
        if d:
            ctx.violation('4', 'values-differ-after-connect', str(d[:4]))
        st['armed'] = True
        # queue seam: issue order
        q = cf.param.param_updater.request_queue
        orig_put = q._put           # called with the queue mutex held: the true queue order

        def _put(pk):
            keep.append(pk)
            ev.append(('put', id(pk), pk.channel, bytes(pk.data)))
            return orig_put(pk)
        q._put = _put
        # rx seam: packets in dispatch order (first packet_received callback position does not matter)

        def rx(pk):
            if pk.port == 2 and pk.channel in (1, 2, 3):
                ev.append(('rx', len(ev), pk.channel, bytes(pk.data)))
                cur_rx['i'] = len(ev) - 1
            else:
                cur_rx['i'] = None
        cf.packet_received.callbacks.insert(0, rx)
        # update callbacks of the three kinds
        cf.param.add_update_callback(cb=lambda name, val: ev.append(('cb', 'all', name, val, cur_rx['i'])))
        for p in dev.param_toc:
            cf.param.add_update_callback(group=p.group, name=p.name,
                                         cb=lambda name, val: ev.append(('cb', 'param', name, val, cur_rx['i'])))
        for g in sorted({p.group for p in dev.param_toc}):
            cf.param.add_update_callback(group=g, cb=lambda name, val: ev.append(('cb', 'group', name, val, cur_rx['i'])))

        if ctx.knobs.get('notify_period') and v2:
            per = ctx.knobs['notify_period']

            def note():
                if st.get('armed') and not st.get('quiet'):
                    i = ctx.work.randrange(len(dev.param_toc))
                    p = dev.param_toc[i]
                    newv = wgen.param_value(ctx.work, p.type_code) if ctx.work.random() < 0.5 else None
                    dev.notify_param(i, newv)
                    ctx.probe('unsolicited value-updated notification')
                    sim.after(per, note)
            sim.after(per, note)

        threads = []
        for ti in range(plan.get('nthreads', 1)):
            mine = [(oi, o) for oi, o in enumerate(plan['ops']) if o['t'] == ti]
            if not mine:
                continue
            t = P.SimThread(target=worker, args=(ctx, cf, dev, mine, calls, qres, v2), name='user-%d' % ti)
            t.daemon = True
            t.start()
            threads.append(t)
        for t in threads:
            t.join(600.0)
            if t.is_alive():
                ctx.violation('3', 'user-call-blocked', 'a parameter API call did not return',
                              ctx.stack_of(t.name))
                return
        st['quiet'] = True
        upd = cf.param.param_updater
        ok = common.wait_until(sim, lambda: q.empty() and not upd.wait_lock.locked() and not cf._answer_patterns and
                               (P.sim_sleep(0.7) or (q.empty() and not upd.wait_lock.locked())), 300.0, 0.05)
        if not ok:
            ctx.violation('3', 'requests-never-drained', 'updater queue %d, wait_lock %s, patterns %r' % (
                q.qsize(), upd.wait_lock.locked(), sorted(cf._answer_patterns)))
            return
        P.sim_sleep(1.0)
        st['cf'] = cf
        final_checks(ctx, cf, dev, ev)
        cf.close_link()
        P.sim_sleep(0.3)

    verdict = sim.run(scenario)
    if verdict[0] in ('deadlock', 'timeout', 'livelock'):
        from simkit.harness import hang_signature
        sg, msg = hang_signature(verdict)
        ctx.violation('3', sg, msg, verdict[1])
    for name, exc, tb in sim.thread_deaths:
        ctx.violation('0', 'thread-died %s @%s' % (exc.split(':')[0], cflib_site(tb)),
                      'library thread %s died: %s' % (name, exc), tb)
    oracle(ctx, dev, ev, calls, qres, idx_of, v2)


def worker(ctx, cf, dev, mine, calls, qres, v2):
    sim = ctx.sim
    byname = {p.key(): p for p in dev.param_toc}
    for oi, o in mine:
        if o['gap']:
            P.sim_sleep(o['gap'])
        kind, name = o['op'], o['name']
        p = byname.get(name)
        exc = None
        try:
            if kind in ('set', 'set-oor', 'set-unknown'):
                cf.param.set_value(name, o['value'])
            elif kind == 'read':
                cf.param.request_param_update(name)
            elif kind == 'get':
                v = cf.param.get_value(name)
                calls.append((oi, o, None, v, sim.now))
                continue
            elif kind in ('pstate', 'pstore', 'pclear', 'default'):
                if not v2:
                    continue
                if kind != 'default' and not (p.extended and p.persistent):
                    # not persistent: the library must refuse
                    try:
                        getattr(cf.param, {'pstate': 'persistent_get_state', 'pstore': 'persistent_store',
                                           'pclear': 'persistent_clear'}[kind])(name, lambda *a: None)
                    except AttributeError:
                        calls.append((oi, o, 'AttributeError', None, sim.now))
                        continue
                    calls.append((oi, o, 'accepted-nonpersistent', None, sim.now))
                    continue
                cb = (lambda oi=oi, kind=kind: (lambda n, v: qres.append((oi, n, kind, v, sim.now))))()
                getattr(cf.param, {'pstate': 'persistent_get_state', 'pstore': 'persistent_store',
                                   'pclear': 'persistent_clear', 'default': 'get_default_value'}[kind])(name, cb)
        except Exception as e:      # noqa
            exc = type(e).__name__
        calls.append((oi, o, exc, None, sim.now))


def resend_tag(ev):
    seen = set()
    for e in ev:
        if e[0] == 'tx':
            if e[1] in seen:
                return ' [a request was retransmitted and answered twice; the duplicate answer was taken for the answer ' \
                       'to a newer request for the same parameter: the wire protocol has no sequence numbers]'
            seen.add(e[1])
    return ''


def final_checks(ctx, cf, dev, ev):
    rt = resend_tag(ev)
    d = common.param_values_equal(cf, dev)
    if d:
        ctx.violation('4', 'cache-differs-from-device' + rt, 'after quiescence: %s' % d[:4])
    for p in dev.param_toc:
        try:
            gv = cf.param.get_value(p.key())
        except Exception as e:
            ctx.violation('4', 'get_value-raised', '%s: %r' % (p.key(), e))
            continue
        if gv != str(p.value):
            ctx.violation('4', 'get_value-differs-from-device' + rt, '%s: get_value %r device %r' % (p.key(), gv, str(p.value)))
    # last value passed to each callback kind per parameter
    last = {}
    for e in ev:
        if e[0] == 'cb':
            last[(e[1], e[2])] = e[3]
    for p in dev.param_toc:
        for kind in ('all', 'param', 'group'):
            v = last.get((kind, p.key()))
            if v is not None and v != str(p.value):
                ctx.violation('4', 'last-callback-value-differs' + rt, '%s callback for %s last got %r, device has %r'
                              % (kind, p.key(), v, str(p.value)))


def oracle(ctx, dev, ev, calls, qres, idx_of, v2):
    plan = ctx.plan
    byname = {p.key(): p for p in dev.param_toc}
    puts = [e for e in ev if e[0] == 'put']
    # clause 2 and clause 1 (encoding): every accepted set_value produced exactly one queued write with the right bytes
    writes_put = [e for e in puts if e[2] == 2]
    accepted_sets = []
    for (oi, o, exc, val, t) in sorted(calls, key=lambda c: c[4]):
        kind = o['op']
        if kind == 'set-unknown' or (kind in ('set', 'set-oor') and byname.get(o['name']) and byname[o['name']].ro):
            if exc is None:
                ctx.violation('2', 'refusal-missing (%s)' % ('unknown' if kind == 'set-unknown' else 'read-only'),
                              'set_value(%r, %r) did not raise' % (o['name'], o['value']))
            continue
        if kind == 'set-oor':
            if exc is None:
                ctx.violation('2', 'out-of-range-accepted', 'set_value(%r, %r) did not raise (type %s)'
                              % (o['name'], o['value'], byname[o['name']].fmt))
            continue
        if kind == 'set':
            if exc is not None:
                ctx.violation('1', 'in-range-value-refused %s' % exc, 'set_value(%r, %r) raised %s'
                              % (o['name'], o['value'], exc))
            else:
                accepted_sets.append(o)
        if kind in ('pstate', 'pstore', 'pclear') and exc == 'accepted-nonpersistent':
            ctx.violation('2', 'non-persistent-accepted', '%s(%r) accepted for a non-persistent parameter' % (kind, o['name']))
    # multiset of expected encodings vs queued writes
    exp = {}
    for o in accepted_sets:
        p = byname[o['name']]
        v = o['value']
        vn = float(v) if p.fmt in ('<f', '<d') else int(v)
        pre = struct.pack('<H', idx_of[o['name']]) if v2 else struct.pack('<B', idx_of[o['name']])
        b = pre + struct.pack(p.fmt, vn)
        exp[b] = exp.get(b, 0) + 1
    got = {}
    for e in writes_put:
        got[e[3]] = got.get(e[3], 0) + 1
    if exp != got:
        miss = [k.hex() for k in exp if exp[k] != got.get(k, 0)]
        extra = [k.hex() for k in got if got[k] != exp.get(k, 0)]
        ctx.violation('1', 'write-encoding-differs', 'expected write packets %s, queued %s' % (miss[:4], extra[:4]))
    # what the device saw: every param write on the wire is one of the queued packets
    allowed = set(got)
    for (t, sess, idx, raw, okw) in dev.param_writes:
        pre = struct.pack('<H', idx) if v2 else struct.pack('<B', idx)
        if pre + raw not in allowed:
            ctx.violation('1', 'unrequested-write-on-wire', 'device received write index %d value %s' % (idx, raw.hex()))
            break
    # clause 3: one at a time in issue order, each answered before the next is sent
    first_tx = {}
    order = []
    for i, e in enumerate(ev):
        if e[0] == 'tx' and e[1] not in first_tx:
            first_tx[e[1]] = i
            order.append(e[1])
    put_order = [e[1] for e in puts]
    sent = [pid for pid in put_order if pid in first_tx]
    if order != sent:
        ctx.violation('3', 'wire-order-differs-from-issue-order', 'first transmissions are not in queue order '
                      '(%d queued, %d sent)' % (len(put_order), len(order)))
    elif ctx.knobs.get('needs_resending') is False:
        info = {e[1]: e for e in puts}
        for a, b in zip(sent, sent[1:]):
            ia, ib = first_tx[a], first_tx[b]
            pa = info[a]
            chan, data = pa[2], pa[3]
            if chan == 3:
                pat = data[:3]
            else:
                pat = data[:2] if v2 else data[:1]
            answered = any(e[0] == 'rx' and e[3][:len(pat)] == pat and (chan == 3) == (e[2] == 3)
                           for e in ev[ia:ib])
            if not answered:
                ctx.violation('3', 'next-request-sent-before-answer', 'request ch%d %s was followed by the next request '
                              'before any matching reply was dispatched' % (chan, data.hex()))
                break
    # each dispatched packet triggers each callback at most once
    per_rx = {}
    for e in ev:
        if e[0] == 'cb':
            k = (e[4], e[1], e[2])
            per_rx[k] = per_rx.get(k, 0) + 1
            if e[4] is None:
                ctx.violation('4', 'callback-outside-dispatch', '%s callback for %s called outside a parameter packet'
                              % (e[1], e[2]))
                break
    dup = [k for k, n in per_rx.items() if n > 1]
    if dup:
        ctx.violation('4', 'callback-called-twice-for-one-reply', '%r' % (dup[:3],))
    # value handed to callbacks equals the value in the packet being dispatched
    for e in ev:
        if e[0] == 'cb' and e[4] is not None:
            rx = ev[e[4]]
            p = byname.get(e[2])
            if p is None:
                continue
            data = rx[3]
            try:
                if rx[2] == 3:
                    raw = data[3:]
                elif rx[2] == 1:
                    raw = data[3:] if v2 else data[1:]
                else:
                    raw = data[2:] if v2 else data[1:]
                val = struct.unpack(p.fmt, raw)[0]
            except struct.error:
                ctx.violation('4', 'callback-for-undecodable-packet', '%s: packet %s' % (e[2], data.hex()))
                break
            if str(val) != e[3]:
                ctx.violation('4', 'callback-value-differs-from-packet', '%s: callback got %r, packet carries %r'
                              % (e[2], e[3], str(val)))
                break
    # clause 5: persistent / default queries
    asked = {}
    for (oi, o, exc, val, t) in calls:
        if o['op'] in ('pstate', 'pstore', 'pclear', 'default') and exc is None and v2:
            p = byname[o['name']]
            if o['op'] == 'default' or (p.extended and p.persistent):
                asked[oi] = o
    answers = {}
    for (oi, n, kind, v, t) in qres:
        answers.setdefault(oi, []).append((n, kind, v, t))
    for oi, o in asked.items():
        a = answers.get(oi, [])
        if len(a) != 1:
            ctx.violation('5', 'query-callback-count (%s)' % o['op'], '%s(%s): callback invoked %d times'
                          % (o['op'], o['name'], len(a)))
            continue
    if len(asked) > 1:
        ctx.probe('several persistent/default queries in one run')
    # content of the answers is judged when no state-changing op on that parameter is concurrent: compare with
    # the set of values the parameter could have had (default never changes; stored changes with store/clear)
    for oi, lst in answers.items():
        o = asked.get(oi)
        if o is None:
            continue
        p = byname[o['name']]
        n, kind, v, t = lst[0]
        if n != o['name']:
            ctx.violation('5', 'query-answer-for-other-name', 'asked %s, callback named %s' % (o['name'], n))
        elif kind == 'default':
            if v != p.default and not (isinstance(v, float) and v != v):
                ctx.violation('5', 'default-value-differs', 'get_default_value(%s) -> %r, device default %r'
                              % (o['name'], v, p.default))
        elif kind == 'pstate':
            if v is None or v.default_value != p.default:
                ctx.violation('5', 'persistent-state-differs', 'persistent_get_state(%s) -> %r, device default %r'
                              % (o['name'], v, p.default))
        elif kind in ('pstore', 'pclear'):
            if v is not True:
                ctx.violation('5', 'persistent-%s-reported-failure' % kind[1:], '%s(%s) -> %r' % (kind, o['name'], v))
