"""Shared scaffolding for checks that run a real Crazyflie object against SimCF."""
from simkit import primitives as P
from world import gen
from world.simcf import LOG_TYPES, PARAM_TYPES
from world.simlink import World

CALLERS = ('connection_requested', 'link_established', 'connected', 'fully_connected', 'disconnected',
           'connection_lost', 'connection_failed', 'disconnected_link_error')

STATE_DISCONNECTED = 0


def sched_knobs(rng, allow_stall=True):
    """Swarm-style per-run scheduler knobs."""
    line_mean = rng.choice([0, 0, 40, 10, 3])
    p_stall = rng.choice([0.0, 0.0, 0.1, 0.3]) if allow_stall else 0.0
    k = {'line_mean': line_mean, 'p_stall': p_stall,
         'stall_window': rng.choice([0.002, 0.02]) if p_stall else 0.0}
    r = rng.random()
    if r < 0.2:
        # priority schedules (PCT): the highest-priority runnable thread always runs, re-decided at every line
        k['line_mean'] = rng.choice([1, 2, 3, 5])
        k['pct'] = rng.choice([1, 2, 3])
        k['pct_horizon'] = rng.choice([2000, 20000, 200000])
    elif r < 0.35 and line_mean:
        # thread starvation (only together with line-level pre-emption)
        k['p_starve'] = rng.choice([0.02, 0.1])
        k['starve_len'] = rng.choice([30, 200, 1000])
    return k


def make_world(ctx, devices, needs_resending=None, lat=None):
    """devices: {name: description}.  Returns (world, {name: SimCF})."""
    k = ctx.knobs
    if needs_resending is None:
        needs_resending = k.get('needs_resending', True)
    if lat is None:
        lat = tuple(k.get('lat', (0.0005, 0.003)))
    from simkit.harness import H
    w = World(ctx.sim, ctx.faults, net_seed=H(ctx.seed, 'net'), lat=lat, needs_resending=needs_resending)
    devs = {}
    for name, d in devices.items():
        dev = gen.build_device(ctx.sim, d)
        w.add_device(name, dev)
        devs[name] = dev
    w.install()
    return w, devs


class Recorder:
    """Records the public life-cycle callbacks of one Crazyflie with a global sequence number."""

    def __init__(self, ctx, cf, hist=None, on_event=None):
        self.ctx = ctx
        self.cf = cf
        self.hist = hist if hist is not None else []
        self.on_event = on_event
        for n in CALLERS:
            getattr(cf, n).add_callback(self._mk(n))

    def _mk(self, n):
        def cb(*args):
            self.note(n, *[a if isinstance(a, (int, float)) else str(a)[:60] for a in args])
            if self.on_event is not None:
                self.on_event(n, args)
        return cb

    def note(self, kind, *args):
        ts = self.ctx.sim.cur()
        self.hist.append((len(self.hist), self.ctx.sim.now, kind, args, ts.name if ts else ''))
        self.ctx.obs(kind, *[a for a in args if isinstance(a, (int, str))][:3])


def wait_until(sim, pred, timeout, step=0.01):
    """Poll pred() in virtual time; True if it became true within timeout."""
    end = sim.now + timeout
    while True:
        if pred():
            return True
        if sim.now >= end:
            return False
        P.sim_sleep(step)


def compare_log_toc(cf, dev):
    """List of differences between the library's log TOC and the device's."""
    diffs = []
    toc = cf.log.toc
    if toc is None:
        return ['library log TOC is None']
    lib = {}
    for g in toc.toc:
        for n in toc.toc[g]:
            lib['%s.%s' % (g, n)] = toc.toc[g][n]
    want = {e.key(): (i, e) for i, e in enumerate(dev.log_toc)}
    if set(lib) != set(want):
        diffs.append('log names differ: missing %s extra %s' % (sorted(set(want) - set(lib))[:5],
                                                                 sorted(set(lib) - set(want))[:5]))
    for k in set(lib) & set(want):
        i, e = want[k]
        le = lib[k]
        exp = (i, LOG_TYPES[e.type_id][0], LOG_TYPES[e.type_id][1], e.type_id & 0x10)
        got = (le.ident, le.ctype, le.pytype, le.access)
        if exp != got:
            diffs.append('log %s: device %r library %r' % (k, exp, got))
        elif type(le).__name__ != 'LogTocElement':
            diffs.append('log %s is a %s' % (k, type(le).__name__))
    return diffs


def compare_param_toc(cf, dev, check_persistent=True):
    diffs = []
    toc = cf.param.toc
    lib = {}
    for g in toc.toc:
        for n in toc.toc[g]:
            lib['%s.%s' % (g, n)] = toc.toc[g][n]
    want = {e.key(): (i, e) for i, e in enumerate(dev.param_toc)}
    if set(lib) != set(want):
        diffs.append('param names differ: missing %s extra %s' % (sorted(set(want) - set(lib))[:5],
                                                                   sorted(set(lib) - set(want))[:5]))
    for k in set(lib) & set(want):
        i, e = want[k]
        le = lib[k]
        exp = (i, PARAM_TYPES[e.type_code][0], PARAM_TYPES[e.type_code][1], 1 if e.ro else 0, bool(e.extended))
        got = (le.ident, le.ctype, le.pytype, le.access, bool(getattr(le, 'extended', None)))
        if exp != got:
            diffs.append('param %s: device %r library %r' % (k, exp, got))
        elif type(le).__name__ != 'ParamTocElement':
            diffs.append('param %s is a %s' % (k, type(le).__name__))
        elif check_persistent and bool(le.is_persistent()) != bool(e.extended and e.persistent):
            diffs.append('param %s: persistent marker device %r library %r' % (
                k, bool(e.extended and e.persistent), le.is_persistent()))
    return diffs


def lookup_consistency(toc, kind):
    """Clause: lookup by name, by index and by (group, name) agree."""
    diffs = []
    for g in list(toc.toc):
        for n in list(toc.toc[g]):
            e = toc.toc[g][n]
            cn = '%s.%s' % (g, n)
            if toc.get_element(g, n) is not e:
                diffs.append('%s get_element(%s) differs' % (kind, cn))
            if '.' not in g and '.' not in n:
                if toc.get_element_by_complete_name(cn) is not e:
                    diffs.append('%s get_element_by_complete_name(%s) differs' % (kind, cn))
                if toc.get_element_id(cn) != e.ident:
                    diffs.append('%s get_element_id(%s) differs' % (kind, cn))
            if toc.get_element_by_id(e.ident) is not e:
                diffs.append('%s get_element_by_id(%d) differs' % (kind, e.ident))
    return diffs


def param_values_equal(cf, dev):
    """Every parameter has a cached value equal to the device's."""
    diffs = []
    for p in dev.param_toc:
        try:
            got = cf.param.values[p.group][p.name]
        except KeyError:
            diffs.append('no cached value for %s' % p.key())
            continue
        if got != str(p.value):
            diffs.append('%s cached %r device %r' % (p.key(), got, str(p.value)))
    return diffs
