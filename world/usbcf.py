"""
The USB stack in front of the firmware model: UsbDriver -> CfUsb -> fake pyusb device -> SimCF.

`UsbWorld` gives a check the same observation points as `simlink.World` / `radiocf.RadioWorld` (hist/note, link-close
probe, failure plan) for links opened through the real `cflib.crtp.usbdriver.UsbDriver` and `cflib.drivers.cfusb.CfUsb`.

Model of the device (Crazyflie 2.x USB, vendor interface): bulk OUT endpoint 1 carries one CRTP packet per write, bulk IN
endpoint 0x81 returns one CRTP packet per read or times out (libusb error -7) after the given time-out; a vendor setup
request switches CRTP-over-USB on and off.  Unplugging makes every transfer fail with "no device" (-4).  USB is lossless
and ordered.
"""
import array
import types

from simkit import kernel
from simkit import primitives as P


class FakeUSBError(Exception):
    def __init__(self, msg, code):
        Exception.__init__(self, msg)
        self.backend_error_code = code


class UsbPeerLink:
    """What SimCF sees as its link."""

    def __init__(self, uw, session):
        self.uw = uw
        self.session = session
        self.closed = False
        self.failed = False
        self.n_down = 0
        self.fail = None

    def downlink(self, header, data, extra_delay=0.0):
        if self.closed or self.uw.dev_usb.unplugged:
            return
        frame = bytes([header]) + bytes(data)
        uw = self.uw
        lat = uw.lat + extra_delay
        # ordered: never overtake an earlier packet
        t = max(uw.sim.now + lat, uw.last_down_t)
        uw.last_down_t = t
        def arrive():
            if uw.dev_usb.crtp_to_usb and not uw.dev_usb.unplugged and not self.closed:
                uw.sim.log('down', self.session, frame[0], frame[1:])
                uw.dev_usb.rx.put(frame)
        uw.sim.at(t, arrive)


class FakeCfDevice:
    """pyusb-like device of a Crazyflie on USB."""
    manufacturer = 'Bitcraze AB'
    bcdDevice = 0x0100
    port_number = 1
    iSerialNumber = 3

    def __init__(self, uw):
        self.uw = uw
        self.rx = P.Mailbox('usb-in')
        self.crtp_to_usb = False
        self.unplugged = False
        self.disposed = 0
        self.usb_log = []
        self.writes = 0

    def set_configuration(self, *a):
        self.usb_log.append(('set_configuration',))

    def reset(self):
        self.usb_log.append(('reset',))

    def ctrl_transfer(self, bmRequestType, bRequest, wValue=0, wIndex=0, data_or_wLength=None, timeout=None):
        if self.unplugged:
            raise FakeUSBError('No such device (it may have been disconnected)', -4)
        self.usb_log.append(('ctrl', bRequest, wValue, wIndex))
        if bRequest == 0x01 and wValue == 0x01:
            self.crtp_to_usb = bool(wIndex)
            if not self.crtp_to_usb:
                self.rx.items.clear()
        return 0

    def write(self, endpoint=1, data=None, timeout=None):
        if self.unplugged:
            raise FakeUSBError('No such device (it may have been disconnected)', -4)
        frame = bytes(bytearray(data))
        self.writes += 1
        self.uw.uplink(frame)
        return len(frame)

    def read(self, endpoint, size, timeout=None):
        if self.unplugged:
            # libusb notices at once; give the scheduler a chance (a real transfer costs time)
            kernel.SIM.sleep(0.0005)
            raise FakeUSBError('No such device (it may have been disconnected)', -4)
        item = self.rx.get(timeout=(timeout or 20) / 1000.0)
        if self.unplugged:
            raise FakeUSBError('No such device (it may have been disconnected)', -4)
        if item is None:
            raise FakeUSBError('Operation timed out', -7)
        return array.array('B', item[:size])


class UsbWorld:
    def __init__(self, sim, faults, dev, lat=0.0005):
        self.sim = sim
        self.faults = faults
        self.dev = dev
        self.lat = lat
        self.dev_usb = FakeCfDevice(self)
        self.hist = None
        self.on_link_close = None
        self.on_uplink = None
        self.sessions = 0
        self.current = None
        self.fail_plan = []
        self.reject_connect = []
        self.frames_seen = 0
        self.last_down_t = 0.0
        self.last_up_t = 0.0
        self.needs_resending = False
        dev.world = self

    def note(self, kind, *args):
        if self.hist is not None:
            self.hist.append((len(self.hist), self.sim.now, kind, args, ''))

    def uplink(self, frame):
        cur = self.current
        if cur is None or not self.dev_usb.crtp_to_usb:
            return
        t = max(self.sim.now + self.lat, self.last_up_t)
        self.last_up_t = t

        def deliver():
            if cur.closed or self.dev_usb.unplugged:
                return
            self.frames_seen += 1
            self.sim.log('up', cur.session, frame[0], frame[1:])
            self.dev.receive(cur, frame[0], frame[1:])
            plan = cur.fail
            if plan and self.frames_seen >= plan['after']:
                self.unplug()
        self.sim.at(t, deliver)

    def unplug(self):
        if not self.dev_usb.unplugged:
            self.dev_usb.unplugged = True
            self.sim.log('usb-unplugged', self.current.session if self.current else -1)
            self.sim.wake_all(self.dev_usb.rx.waiters)

    def replug(self):
        self.dev_usb.unplugged = False
        self.dev_usb.crtp_to_usb = False
        self.dev_usb.rx.items.clear()

    def install(self):
        import cflib.crtp
        import cflib.drivers.cfusb as cfusb
        import usb
        from cflib.crtp.usbdriver import UsbDriver
        uw = self
        cfusb._find_devices = lambda: [uw.dev_usb]
        cfusb.usb = types.SimpleNamespace(
            TYPE_VENDOR=usb.TYPE_VENDOR, USBError=FakeUSBError,
            core=types.SimpleNamespace(USBError=FakeUSBError),
            util=types.SimpleNamespace(dispose_resources=lambda d: setattr(d, 'disposed', d.disposed + 1),
                                       claim_interface=lambda d, i: None,
                                       get_string=lambda d, *a: '0123456789AB'))

        class ProbedUsbDriver(UsbDriver):
            def connect(self, uri, stats_cb, err_cb):
                import re
                from cflib.crtp.exceptions import WrongUriType
                if not re.search('^usb://([0-9]+)$', uri):
                    raise WrongUriType('Not a usb URI')
                if uw.reject_connect:
                    raise Exception(uw.reject_connect.pop(0))
                if int(uri.rsplit('/', 1)[1]) != 0:
                    return UsbDriver.connect(self, uri, stats_cb, err_cb)      # no such device: raises
                session = uw.sessions
                uw.sessions += 1
                pl = UsbPeerLink(uw, session)
                pl.fail = uw.fail_plan.pop(0) if uw.fail_plan else None
                self._pl = pl

                def err(msg):
                    uw.note('link_error_reported', session, 'driver')
                    try:
                        err_cb(msg)
                    finally:
                        uw.note('link_error_returned', session, 'driver')
                uw.replug()
                uw.frames_seen = 0
                uw.current = pl
                UsbDriver.connect(self, uri, stats_cb, err if err_cb else None)
                uw.dev.link_connected(pl)
                q = self.in_queue
                orig_put = q._put

                def _put(pk):
                    pl.n_down += 1
                    if pl.n_down == 1:
                        uw.note('first_packet_delivered', session)
                    return orig_put(pk)
                q._put = _put
                if pl.fail and pl.fail.get('after') == 0:
                    uw.unplug()

            def close(self):
                if uw.on_link_close is not None and not self._pl.closed:
                    uw.on_link_close(self)
                self._pl.closed = True
                UsbDriver.close(self)
        del cflib.crtp.CLASSES[:]
        cflib.crtp.CLASSES.append(ProbedUsbDriver)
        return ProbedUsbDriver
