"""
Seeded generators of device descriptions (JSON-able) and their instantiation.

A device description is a dict:
  {'version': int, 'legacy_source': bool,
   'log': [[group, name, type_id], ...],
   'param': [[group, name, type_code, value, ro, extended, persistent, default, stored], ...],
   'mems': [[type, size, content-hex-or-None], ...],
   'log_crc': int|None, 'param_crc': int|None, 'value_seed': int}
"""
import struct
import zlib

from .simcf import LogVar, Mem, ParamVar, SimCF, PARAM_TYPES

_ALPHA = 'abcdefghijklmnopqrstuvwxyzABCDEFGHIJKLMNOPQRSTUVWXYZ0123456789_'


def _name(rng, n):
    return ''.join(rng.choice(_ALPHA) for _ in range(n))


def param_value(rng, code):
    """A representable python value for the type code (boundary-biased)."""
    fmt = PARAM_TYPES[code][1]
    if code == 0x06:
        v = rng.choice([0.0, 1.0, -1.5, 3.4028234663852886e+38, 1e-30, rng.uniform(-1e6, 1e6)])
        return struct.unpack('<f', struct.pack('<f', v))[0]
    if code == 0x07:
        return rng.choice([0.0, -2.5, 1.7976931348623157e+308, 5e-324, rng.uniform(-1e12, 1e12)])
    size = struct.calcsize(fmt)
    bits = 8 * size
    signed = code < 0x08
    lo, hi = (-(1 << (bits - 1)), (1 << (bits - 1)) - 1) if signed else (0, (1 << bits) - 1)
    return rng.choice([lo, hi, 0, 1, rng.randint(lo, hi), rng.randint(lo, hi)])


def unique_names(rng, n, maxlen):
    """n distinct (group, name) pairs with len(group)+len(name) <= maxlen."""
    seen = set()
    out = []
    groups = [_name(rng, rng.randint(1, 6)) for _ in range(max(1, n // 4 + 1))]
    tries = 0
    while len(out) < n:
        tries += 1
        g = rng.choice(groups) if rng.random() < 0.8 else _name(rng, rng.randint(1, min(12, maxlen - 1)))
        room = maxlen - len(g)
        if room < 1:
            continue
        if rng.random() < 0.05:
            ln = room                      # exactly at the packet limit
        else:
            ln = rng.randint(1, min(room, 10))
        nm = _name(rng, ln)
        if (g, nm) in seen:
            continue
        seen.add((g, nm))
        out.append((g, nm))
    return out


def gen_device(rng, n_log=None, n_param=None, version=None, mems=None, ext_rate=0.3, big=False):
    if version is None:
        version = rng.choice([10, 10, 10, 9, 8, 7, 5, 4, 3, 1, 0, -1])
    v2 = version >= 4
    if n_log is None:
        n_log = rng.choice([0, 1, 2, 3, 5, 8, 13, 20])
    if n_param is None:
        n_param = rng.choice([0, 1, 2, 3, 5, 8, 13, 20])
    if not v2:
        n_log = min(n_log, 255)
        n_param = min(n_param, 255)
    maxlen = 24 if v2 else 25
    log = [[g, n, rng.randint(1, 8)] for g, n in unique_names(rng, n_log, maxlen)]
    param = []
    codes = sorted(PARAM_TYPES)
    for g, n in unique_names(rng, n_param, maxlen):
        code = rng.choice(codes)
        ro = rng.random() < 0.2
        ext = v2 and rng.random() < ext_rate
        pers = ext and rng.random() < 0.7
        val = param_value(rng, code)
        default = param_value(rng, code)
        stored = param_value(rng, code) if pers and rng.random() < 0.5 else None
        param.append([g, n, code, val, ro, ext, pers, default, stored])
    if mems is None:
        mems = []
        for _ in range(rng.choice([0, 0, 1, 2, 3])):
            mems.append([rng.choice([0x18, 0x15, 0x11]), rng.choice([16, 64, 200, 1024]), None])
    return {'version': version, 'legacy_source': version < 0,
            'log': log, 'param': param, 'mems': mems, 'log_crc': None, 'param_crc': None,
            'value_seed': rng.randint(1, 1 << 30)}


def ow_image(rng, valid=True):
    """A 1-wire memory image with a (valid or broken) header and element section."""
    header = struct.pack('<BIBB', 0xEB, rng.randint(0, 0xFFFFFFFF), 0xBC, rng.randint(1, 200))
    header += bytes([zlib.crc32(header) & 0xFF])
    name = _name(rng, rng.randint(1, 12)).encode()
    rev = _name(rng, rng.randint(1, 4)).encode()
    elem = bytes([1, len(name)]) + name + bytes([2, len(rev)]) + rev
    ed = bytes([0, len(elem)]) + elem
    ed += bytes([zlib.crc32(ed) & 0xFF])
    img = bytearray(header + ed)
    img += bytes(112 - len(img)) if len(img) < 112 else b''
    if not valid:
        k = rng.randrange(0, 8)
        img[k] ^= 0x5A
    return bytes(img)


def build_device(sim, d):
    log = [LogVar(g, n, t) for g, n, t in d['log']]
    param = [ParamVar(g, n, c, v, ro, ext, pers, dflt, st)
             for g, n, c, v, ro, ext, pers, dflt, st in d['param']]
    mems = []
    for mt, size, content in d.get('mems', []):
        mems.append(Mem(mt, size, bytes.fromhex(content) if content else None))
    return SimCF(sim, d['version'], log, param, mems, log_crc=d.get('log_crc'),
                 param_crc=d.get('param_crc'), legacy_source=d.get('legacy_source', False),
                 value_seed=d.get('value_seed', 1))
