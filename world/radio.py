"""
Fake Crazyradio dongle (pyusb device stub), nRF51 ESB/safelink peer and the air
between them (DESIGN Appendix A).

FakeDongle implements the part of the pyusb Device API that
cflib.drivers.crazyradio.Crazyradio uses.  A bulk write runs up to ARC+1 air
transmissions with one PID against the peer that listens on the dongle's current
(channel, data rate, address); each transmission takes virtual time and gets an
outcome {ok, uplink lost, ack lost} from the fault plan.  The following bulk read
returns [status, ack payload...].
"""
import array
import types

from simkit import kernel

SET_RADIO_CHANNEL, SET_RADIO_ADDRESS, SET_DATA_RATE = 0x01, 0x02, 0x03
SET_RADIO_POWER, SET_RADIO_ARD, SET_RADIO_ARC = 0x04, 0x05, 0x06
ACK_ENABLE, SET_CONT_CARRIER = 0x10, 0x20


class FakeUSBError(Exception):
    pass


class NrfPeer:
    """The Crazyflie's nRF51: ESB PRX with PID de-duplication and the safelink bit logic."""

    def __init__(self, channel, rate, address, safelink=True, rssi_ack=True):
        self.channel, self.rate, self.address = channel, rate, tuple(address)
        self.safelink_capable = safelink
        self.rssi_ack = rssi_ack
        self.has_safelink = False
        self.curr_up = 1
        self.curr_down = 1
        self.last_pid = None
        self.last_frame = None
        self.last_ack = b''
        self.rx = []          # frames handed to the STM32 (CRTP), null packets excluded: (t, bytes)
        self.rx_null = 0
        self.txq = []         # downlink CRTP packets waiting (bytes)
        self.tx_taken = []    # (t, bytes) downlink packets dequeued for transmission, in order
        self.sent_safelink_echo = 0
        self.frames = 0

    def queue_downlink(self, data):
        self.txq.append(bytes(data))

    def on_frame(self, now, pid, frame):
        """A transmission reached the peer.  Returns the ack payload (bytes)."""
        self.frames += 1
        frame = bytes(frame)
        if pid == self.last_pid and frame == self.last_frame:
            return self.last_ack                      # hardware retransmission: same ack, nothing else
        self.last_pid, self.last_frame = pid, frame
        # safelink request
        if self.safelink_capable and len(frame) == 3 and (frame[0] & 0xF3) == 0xF3 and frame[1] == 0x05:
            self.has_safelink = bool(frame[2])
            self.curr_up = 1
            self.curr_down = 1
            self.sent_safelink_echo += 1
            self.last_ack = frame
            return self.last_ack
        if (not self.has_safelink) or ((frame[0] >> 3) & 1) != self.curr_up:
            # new uplink packet
            if len(frame) == 1 and (frame[0] & 0xF3) == 0xF3:
                self.rx_null += 1
            else:
                self.rx.append((now, frame))
            self.curr_up ^= 1
        if (not self.has_safelink) or ((frame[0] >> 2) & 1) != self.curr_down:
            self.curr_down ^= 1
            if self.txq:
                pk = bytearray(self.txq.pop(0))
                self.tx_taken.append((now, bytes(pk)))
                if self.has_safelink:
                    pk[0] = (pk[0] & 0xF3) | (self.curr_up << 3) | (self.curr_down << 2)
                self.last_ack = bytes(pk)
            else:
                if self.has_safelink or self.rssi_ack:
                    bits = ((self.curr_up << 3) | (self.curr_down << 2)) if self.has_safelink else 0x0C
                    self.last_ack = bytes([0xF3 | bits, 0x01, 40])
                else:
                    self.last_ack = b''
        # else: retransmit the last ack
        return self.last_ack


class Air:
    """Decides the outcome of every transmission; knows all peers."""

    def __init__(self, sim, faults, airtime=0.001):
        self.sim = sim
        self.faults = faults
        self.airtime = airtime
        self.peers = []
        self.log = []        # (t, outcome, pid, frame) per transmission
        self.forced = None   # optional list of outcomes consumed first (directed sweeps)

    def outcome(self):
        if self.forced:
            return self.forced.pop(0)
        return self.faults.choice('air', 3)     # 0 ok, 1 uplink lost, 2 ack lost

    def find_peer(self, channel, rate, address):
        for p in self.peers:
            if p.channel == channel and p.rate == rate and p.address == tuple(address):
                return p
        return None


class FakeDongle:
    """pyusb-like device of a Crazyradio."""

    def __init__(self, air, serial='FAKE0001', bcd=0x0053):
        self.air = air
        self.serial_number = serial
        self.bcdDevice = bcd
        self.channel = 2
        self.rate = 2
        self.address = (0xE7,) * 5
        self.arc = 3
        self.ack_enable = True
        self.pid = 0
        self.pending = None          # result of the last write, returned by the next read
        self.results = []            # (t, acked, retries, frame, ack payload) per bulk transfer
        self.result_peer = []        # the peer the dongle was tuned to for that transfer (None: nobody listens there)
        self.usb_log = []
        self.disposed = 0
        self.unplugged = False

    # -- pyusb API ---------------------------------------------------------
    def set_configuration(self, n):
        self.usb_log.append(('set_configuration', n))

    def reset(self):
        self.usb_log.append(('reset',))

    def ctrl_transfer(self, bmRequestType, bRequest, wValue=0, wIndex=0, data_or_wLength=None, timeout=None):
        self.usb_log.append(('ctrl', bRequest, wValue, tuple(data_or_wLength) if data_or_wLength not in (None, ())
                             and not isinstance(data_or_wLength, int) else data_or_wLength))
        if bRequest == SET_RADIO_CHANNEL:
            self.channel = wValue
        elif bRequest == SET_RADIO_ADDRESS:
            self.address = tuple(data_or_wLength)
        elif bRequest == SET_DATA_RATE:
            self.rate = wValue
        elif bRequest == SET_RADIO_ARC:
            self.arc = wValue
        elif bRequest == ACK_ENABLE:
            self.ack_enable = bool(wValue)
        return 0

    def write(self, endpoint=1, data=None, timeout=None):
        sim = self.air.sim
        faults = self.air.faults
        if self.unplugged:
            raise IOError('No such device (it may have been disconnected)')
        if faults.flag('usb_write_err'):
            self.pending = None
            raise FakeUSBError('simulated USB write error')
        frame = bytes(bytearray(data))
        self.pid = (self.pid + 1) & 3
        peer = self.air.find_peer(self.channel, self.rate, self.address)
        acked = False
        payload = b''
        tries = 0
        for attempt in range(self.arc + 1):
            tries = attempt
            if self.air.airtime:
                sim.sleep(self.air.airtime)
            out = self.air.outcome() if peer is not None else 1
            if peer is not None and getattr(peer, 'deaf', False):
                out = 1                     # out of range
            self.air.log.append((sim.now, out, self.pid, frame))
            if out == 1 or peer is None:
                continue                    # uplink lost: the peer hears nothing
            ack = peer.on_frame(sim.now, self.pid, frame)
            if out == 2:
                continue                    # ack lost on the way back
            acked = True
            payload = ack
            break
        self.results.append((sim.now, acked, tries, frame, payload))
        self.result_peer.append(peer)
        if acked:
            self.pending = array.array('B', bytes([0x01 | (min(tries, 15) << 4)]) + payload)
        else:
            self.pending = array.array('B', [0])
        return len(frame)

    def read(self, endpoint, size, timeout=None):
        if self.unplugged:
            raise IOError('No such device (it may have been disconnected)')
        if self.air.faults.flag('usb_read_err'):
            self.pending = None
            if self.results:
                # the driver never sees the outcome of this transfer
                t, acked, tries, frame, payload = self.results[-1]
                self.results[-1] = (t, None, tries, frame, payload)
            raise FakeUSBError('simulated USB read error')
        if self.pending is None:
            raise FakeUSBError('read without a transfer')
        r, self.pending = self.pending, None
        return r


def install(dongles):
    """Point cflib.drivers.crazyradio at the fake dongles."""
    import cflib.drivers.crazyradio as cr
    import usb
    cr._find_devices = lambda serial=None: (
        next((d for d in dongles if d.serial_number == serial), []) if serial is not None else list(dongles))
    fake_usb = types.SimpleNamespace(
        TYPE_VENDOR=usb.TYPE_VENDOR, USBError=FakeUSBError,
        core=types.SimpleNamespace(USBError=FakeUSBError),
        util=types.SimpleNamespace(dispose_resources=lambda dev: setattr(dev, 'disposed', dev.disposed + 1)))
    cr.usb = fake_usb
    import cflib.crtp
    from cflib.crtp.radiodriver import RadioDriver
    del cflib.crtp.CLASSES[:]
    cflib.crtp.CLASSES.append(RadioDriver)
