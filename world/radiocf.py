"""
The full radio stack in front of the firmware model: RadioDriver -> FakeDongle -> air -> NrfPeer -> SimCF.

`RadioWorld` gives a check the same observation points as `simlink.World` (hist/note, link-close probe, failure
injection) for links opened through the real `cflib.crtp.radiodriver.RadioDriver`.
"""
from simkit import kernel
from . import radio as wradio


class PeerLink:
    """What SimCF sees as its link: frames accepted by the nRF peer come in, replies go to the peer's TX queue."""

    def __init__(self, rw, session):
        self.rw = rw
        self.session = session
        self.closed = False
        self.failed = False
        self.n_down = 0

    def downlink(self, header, data, extra_delay=0.0):
        if self.closed:
            return
        frame = bytes([header]) + bytes(data)
        if extra_delay:
            self.rw.sim.after(extra_delay, lambda: self.rw.peer.queue_downlink(frame))
        else:
            self.rw.peer.queue_downlink(frame)


class RadioWorld:
    def __init__(self, sim, faults, dev, channel=80, rate=2, address=(0xE7,) * 5, airtime=0.002, safelink=True):
        self.sim = sim
        self.faults = faults
        self.dev = dev
        self.air = wradio.Air(sim, faults, airtime=airtime)
        self.peer = wradio.NrfPeer(channel, rate, address, safelink=safelink)
        self.air.peers.append(self.peer)
        self.dongle = wradio.FakeDongle(self.air)
        self.hist = None
        self.on_link_close = None
        self.sessions = 0
        self.current = None
        self.fail_plan = []
        self.frames_seen = 0
        self.dead = False
        dev.world = self
        peer = self.peer
        orig = peer.on_frame

        def on_frame(now, pid, frame):
            n0 = len(peer.rx)
            ack = orig(now, pid, frame)
            if len(peer.rx) > n0 and self.current is not None:
                t, fr = peer.rx[-1]
                self.frames_seen += 1
                self.dev.receive(self.current, fr[0], fr[1:])
                self._count()
            return ack
        peer.on_frame = on_frame

    def note(self, kind, *args):
        if self.hist is not None:
            self.hist.append((len(self.hist), self.sim.now, kind, args, ''))

    def _count(self):
        plan = self.current.fail if self.current is not None else None
        if plan and not self.dead and self.frames_seen >= plan['after']:
            self.kill()

    def kill(self):
        """The Crazyflie goes out of range: every transmission is lost from now on."""
        self.dead = True
        self.air.forced = _Forever(1)
        self.sim.log('radio-dead', self.current.session if self.current else -1)

    def revive(self):
        self.dead = False
        self.air.forced = None

    def install(self):
        """Register a RadioDriver subclass that reports to this world."""
        wradio.install([self.dongle])
        import cflib.crtp
        from cflib.crtp.radiodriver import RadioDriver
        rw = self

        class ProbedRadioDriver(RadioDriver):
            def connect(self, uri, stats_cb, err_cb):
                session = rw.sessions
                rw.sessions += 1
                pl = PeerLink(rw, session)
                pl.fail = rw.fail_plan.pop(0) if rw.fail_plan else None
                self._pl = pl

                def err(msg):
                    import threading  # noqa
                    who = 'driver' if 'Too many' in msg or 'unplugged' in msg else 'sender'
                    rw.note('link_error_reported', session, who)
                    try:
                        err_cb(msg)
                    finally:
                        rw.note('link_error_returned', session, who)
                rw.revive()
                rw.frames_seen = 0
                rw.current = pl
                rw.peer.has_safelink = False
                rw.peer.txq = []
                rw.dev.link_connected(pl)
                RadioDriver.connect(self, uri, stats_cb, err if err_cb else None)
                # first data packet into the in-queue
                q = self.in_queue
                orig_put = q._put

                def _put(pk):
                    if not (pk.port == 15 and pk.channel == 3):
                        pl.n_down += 1
                        if pl.n_down == 1:
                            rw.note('first_packet_delivered', session)
                    return orig_put(pk)
                q._put = _put
                if pl.fail and pl.fail.get('after') == 0:
                    rw.kill()

            def close(self):
                if rw.on_link_close is not None and not self._pl.closed:
                    rw.on_link_close(self)
                self._pl.closed = True
                RadioDriver.close(self)
        del cflib.crtp.CLASSES[:]
        cflib.crtp.CLASSES.append(ProbedRadioDriver)
        return ProbedRadioDriver


class _Forever(list):
    """A 'forced outcomes' list that never runs out."""

    def __init__(self, v):
        list.__init__(self, [v])
        self.v = v

    def pop(self, i=0):
        return self.v

    def __bool__(self):
        return True
