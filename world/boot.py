"""
SimBootTarget: reference model of the Crazyflie bootloader protocol (DESIGN Appendix A).

[t,0x10]                          -> [t,0x10,page_size16,buffer_pages16,flash_pages16,start_page16,cpuid x12,version,...]
[t,0x14,page16,addr16,data...]    writes into buffer page (no reply)
[t,0x18,buf_page16,flash_page16,n16] copies n buffer pages to flash, replies [t,0x18,done,error]
[t,0x1C,page16,addr16]            -> same header + up to 25 bytes of flash
[t,0x12]                          -> mapping pairs
Every addressed flash page and buffer byte is logged for the oracle.
"""
import struct


class SimBootTarget:
    def __init__(self, sim, faults, targets):
        """targets: {id: dict(page_size, buffer_pages, flash_pages, start_page, proto)}"""
        self.sim = sim
        self.faults = faults
        self.world = None
        self.t = {}
        for tid, g in targets.items():
            flash = bytearray()
            for p in range(g['flash_pages']):
                flash += bytes(((p * 31 + i * 7 + tid) & 0xFF) for i in range(g['page_size']))
            self.t[tid] = dict(g, flash=flash, pristine=bytes(flash),
                               buffers=[bytearray(g['page_size']) for _ in range(g['buffer_pages'])])
        self.loads = []          # (t, tid, page, addr, data)
        self.writes = []         # (t, tid, buf_page, flash_page, npages, outcome)
        self.cmds = []           # every command (t, tid, cmd, raw)
        self.out_of_range = []
        self.forced = None       # optional list of outcomes for flash-write commands (directed sweep)
        self.link = None
        self.late_replies = False
        self.late_delay = 2.6
        self.chatter_sent = 0
        self.resets = []
        self.after_reset = {}    # tid -> geometry fields that change once a new bootloader+softdevice has been flashed
        self.sd_written = {}     # tid -> True once the top-of-flash region has been written
        self.sd_region = {}      # tid -> first page of the bootloader+softdevice region

    def chatter(self, kind, tid):
        """An unrelated downlink packet: console text, a late info reply, or the other target's flash-write reply."""
        if self.link is None:
            return
        other = 0xFE if tid == 0xFF else 0xFF
        self.chatter_sent += 1
        if kind == 0:
            self.link.downlink(0x00, b'SYS: still alive\n')
        elif kind == 1:
            self.link.downlink(0xFF, bytes([tid, 0x10]) + bytes(21))
        elif kind == 2:
            self.link.downlink(0xFF, bytes([other, 0x18, 1, 0]))
        else:
            self.link.downlink(0xFF, bytes([tid, 0x1C, 0, 0, 0, 0]) + bytes(8))

    def link_connected(self, link):
        pass

    def link_closed(self, link):
        pass

    def receive(self, link, header, data):
        self.link = link
        if header != 0xFF or len(data) < 2:
            return
        tid, cmd = data[0], data[1]
        self.cmds.append((self.sim.now, tid, cmd, bytes(data)))
        g = self.t.get(tid)
        if g is None:
            return
        if cmd == 0xFF:
            # reset request: answered on the link port with the 4 address bytes the bootloader will listen on
            self.resets.append((self.sim.now, tid, 'init'))
            link.downlink(0xFF, bytes([tid, 0xFF, 0x11, 0x22, 0x33, 0x44, 0x00]))
        elif cmd == 0xF0:
            self.resets.append((self.sim.now, tid, 'boot' if len(data) > 2 and data[2] == 0 else 'fw'))
            if len(data) > 2 and data[2] == 0 and self.after_reset:
                # the (new) bootloader comes up: geometry as it reports it from now on
                for t2, upd in self.after_reset.items():
                    if self.sd_written.get(t2):
                        self.t[t2].update(upd)
        elif cmd == 0x10:
            out = struct.pack('<BBHHHH', tid, 0x10, g['page_size'], g['buffer_pages'], g['flash_pages'], g['start_page'])
            out += bytes(range(1, 13)) + bytes([g.get('proto', 0x10)])
            link.downlink(0xFF, out)
        elif cmd == 0x12:
            link.downlink(0xFF, bytes([tid, 0x12, 4, 16, 1, 64, 7, 128]))
        elif cmd == 0x14:
            if len(data) < 6:
                return
            page, addr = struct.unpack('<HH', data[2:6])
            payload = bytes(data[6:])
            self.loads.append((self.sim.now, tid, page, addr, payload, len(data)))
            if page >= g['buffer_pages'] or addr + len(payload) > g['page_size']:
                self.out_of_range.append(('buffer', page, addr, len(payload), tid))
                return
            g['buffers'][page][addr:addr + len(payload)] = payload
        elif cmd == 0x18:
            if len(data) < 8:
                return
            bpage, fpage, n = struct.unpack('<HHH', data[2:8])
            if self.forced:
                outcome = self.forced.pop(0)
            else:
                # 0 ok, 1 request lost, 2 reply lost, 3 negative, 4 done but answered late (slow erase: 2.6-4 s)
                outcome = self.faults.choice('flash', 5 if self.late_replies else 4)
            self.writes.append((self.sim.now, tid, bpage, fpage, n, outcome))
            if outcome == 1:
                return
            if outcome == 3:
                link.downlink(0xFF, bytes([tid, 0x18, 0, 5]))
                return
            if fpage + n > g['flash_pages'] or bpage + n > g['buffer_pages']:
                self.out_of_range.append(('flash', fpage, n, tid))
                link.downlink(0xFF, bytes([tid, 0x18, 0, 1]))
                return
            ps = g['page_size']
            for i in range(n):
                g['flash'][(fpage + i) * ps:(fpage + i + 1) * ps] = g['buffers'][bpage + i]
            if tid in self.sd_region and fpage + n > self.sd_region[tid]:
                self.sd_written[tid] = True
            if outcome == 2:
                return
            if outcome == 4:
                link.downlink(0xFF, bytes([tid, 0x18, 1, 0]), extra_delay=self.late_delay)
                return
            link.downlink(0xFF, bytes([tid, 0x18, 1, 0]))
        elif cmd == 0x1C:
            page, addr = struct.unpack('<HH', data[2:6])
            ps = g['page_size']
            chunk = bytes(g['flash'][page * ps + addr:page * ps + min(ps, addr + 25)])
            link.downlink(0xFF, bytes(data[:6]) + chunk)
