"""
SimCF: reference model of the Crazyflie firmware's CRTP services
(DESIGN Appendix A).  Runs in kernel context: `receive` is called when an
uplink packet is delivered and answers through `link.downlink`.

The model is table driven and deliberately not stricter than the firmware.
Everything it receives and sends is recorded for the oracles.
"""
import errno
import struct
import zlib

LOG_TYPES = {1: ('uint8_t', '<B', 1), 2: ('uint16_t', '<H', 2), 3: ('uint32_t', '<L', 4),
             4: ('int8_t', '<b', 1), 5: ('int16_t', '<h', 2), 6: ('int32_t', '<i', 4),
             7: ('float', '<f', 4), 8: ('FP16', '<e', 2)}

PARAM_TYPES = {0x08: ('uint8_t', '<B'), 0x09: ('uint16_t', '<H'), 0x0A: ('uint32_t', '<L'),
               0x0B: ('uint64_t', '<Q'), 0x00: ('int8_t', '<b'), 0x01: ('int16_t', '<h'),
               0x02: ('int32_t', '<i'), 0x03: ('int64_t', '<q'), 0x06: ('float', '<f'),
               0x07: ('double', '<d')}

PORT_CONSOLE, PORT_PARAM, PORT_CMD, PORT_MEM, PORT_LOG = 0, 2, 3, 4, 5
PORT_LOC, PORT_GENERIC, PORT_HL, PORT_PLATFORM, PORT_LINK = 6, 7, 8, 13, 15


def hdr(port, channel):
    return ((port & 0x0F) << 4) | (3 << 2) | (channel & 3)


class LogVar:
    def __init__(self, group, name, type_id):
        self.group, self.name, self.type_id = group, name, type_id

    def key(self):
        return '%s.%s' % (self.group, self.name)


class ParamVar:
    def __init__(self, group, name, type_code, value, ro=False, extended=False,
                 persistent=False, default=None, stored=None):
        self.group, self.name, self.type_code = group, name, type_code
        self.value = value              # python value (already representable)
        self.ro = ro
        self.extended = extended        # TOC bit 0x10
        self.persistent = persistent    # answer of GET_EXTENDED_TYPE
        self.default = default if default is not None else value
        self.stored = stored            # None = not stored

    def key(self):
        return '%s.%s' % (self.group, self.name)

    @property
    def fmt(self):
        return PARAM_TYPES[self.type_code][1]

    def toc_byte(self):
        return self.type_code | (0x10 if self.extended else 0) | (0x40 if self.ro else 0)


class Mem:
    def __init__(self, mtype, size, content=None, addr=0):
        self.mtype, self.size, self.addr = mtype, size, addr
        if content is None:
            content = bytearray((i * 7 + 3) & 0xFF for i in range(size))
        self.data = bytearray(content)


class LogBlock:
    def __init__(self, bid):
        self.id = bid
        self.ops = []            # (fetch_type, stored_type, var_index)
        self.period = 0
        self.running = False
        self.gen = 0             # bumped on stop/delete so old timers die
        self.nsamples = 0


class SimCF:
    def __init__(self, sim, protocol_version=10, log_toc=(), param_toc=(), mems=(),
                 log_crc=None, param_crc=None, legacy_source=False, value_seed=1,
                 max_blocks=16, max_ops=128):
        self.sim = sim
        self.world = None
        self.protocol_version = protocol_version     # -1: no version service
        self.v2 = protocol_version >= 4
        self.log_toc = list(log_toc)
        self.param_toc = list(param_toc)
        self.mems = list(mems)
        self.log_crc = log_crc if log_crc is not None else self._crc('log', self.log_toc)
        self.param_crc = param_crc if param_crc is not None else self._crc('param', self.param_toc)
        self.legacy_source = legacy_source
        self.max_blocks, self.max_ops = max_blocks, max_ops
        self.blocks = {}
        self.value_seed = value_seed
        self.link = None
        # records for oracles
        self.rx = []               # (t, session, port, channel, bytes)
        self.tx = []               # (t, session, port, channel, bytes)
        self.log_sent = []         # (t, session, block id, ts, [values], raw payload)
        self.log_cmds = []         # (t, session, cmd, block id, raw bytes, status)
        self.param_writes = []     # (t, session, index, raw value bytes, accepted)
        self.param_reads = []      # (t, session, index)
        self.param_misc = []       # (t, session, cmd, index)
        self.mem_ops = []          # (t, session, 'r'|'w', mem id, addr, len/bytes, status)
        self.toc_requests = []     # (t, session, port, cmd, index)
        self.echo_rx = []
        self.sink = []             # (t, session, port, channel, bytes) for ports 3, 6, 7, 8, 13/0
        self.protocol_errors = []  # things a real firmware would have choked on
        self.reply_delay = None    # optional fn(port, channel, data) -> extra seconds
        self.mem_fault = None      # optional fn(kind, mem id, addr) -> status or 0
        self.silent = False        # when True nothing is answered (device stall)

    @staticmethod
    def _crc(kind, toc):
        s = kind + '|' + '|'.join(
            '%s.%s:%s' % (e.group, e.name, getattr(e, 'type_id', getattr(e, 'type_code', 0))) for e in toc)
        return zlib.crc32(s.encode('latin1')) & 0xFFFFFFFF

    # ------------------------------------------------------------- plumbing
    def link_connected(self, link):
        self.link = link

    def link_closed(self, link):
        # a closed link does not reset the firmware: log blocks keep running
        # until the next log reset, exactly like a radio link going away.
        pass

    def send(self, link, port, channel, data, extra_delay=0.0):
        data = bytes(data)
        assert len(data) <= 30, 'model bug: payload > 30'
        self.tx.append((self.sim.now, link.session, port, channel, data))
        if self.reply_delay is not None:
            extra_delay += self.reply_delay(port, channel, data)
        link.downlink(hdr(port, channel), data, extra_delay)

    def receive(self, link, header, data):
        port = (header >> 4) & 0x0F
        channel = header & 3
        self.rx.append((self.sim.now, link.session, port, channel, data))
        if self.silent:
            return
        if port == PORT_LINK:
            self._link(link, channel, data)
        elif port == PORT_PLATFORM:
            self._platform(link, channel, data)
        elif port == PORT_LOG:
            self._log(link, channel, data)
        elif port == PORT_PARAM:
            self._param(link, channel, data)
        elif port == PORT_MEM:
            self._mem(link, channel, data)
        elif port == 9:
            # test echo service (C10): answers with the same channel and payload
            self.echo_rx.append((self.sim.now, link.session, channel, data))
            self.send(link, 9, channel, data)
        else:
            self.sink.append((self.sim.now, link.session, port, channel, data))

    # ---------------------------------------------------------------- link
    def _link(self, link, channel, data):
        if channel == 0:
            self.send(link, PORT_LINK, 0, data)
        elif channel == 1:
            if self.legacy_source:
                self.send(link, PORT_LINK, 1, b'Legacy firmware\x00\x00\x00\x00')
            else:
                self.send(link, PORT_LINK, 1, b'Bitcraze Crazyflie\x00\x00\x00')
        # channel 3 (null/safelink) ignored

    def _platform(self, link, channel, data):
        if channel == 1 and len(data) >= 1 and data[0] == 0:
            self.send(link, PORT_PLATFORM, 1, bytes([0, self.protocol_version & 0xFF]))
        elif channel == 1 and len(data) >= 1 and data[0] == 1:
            self.send(link, PORT_PLATFORM, 1, bytes([1]) + b'simcf')
        else:
            self.sink.append((self.sim.now, link.session, PORT_PLATFORM, channel, data))

    # ----------------------------------------------------------------- TOC
    def _toc(self, link, port, data, toc, crc, is_log):
        if not data:
            self.protocol_errors.append(('empty toc request', port))
            return
        cmd = data[0]
        if cmd in (1, 3):             # info
            if cmd == 3 and not self.v2:
                self.protocol_errors.append(('v2 info to legacy firmware', port))
                return
            self.toc_requests.append((self.sim.now, link.session, port, cmd, None))
            n = len(toc)
            if cmd == 1:
                if n > 255:
                    self.protocol_errors.append(('v1 info but table > 255', port))
                out = struct.pack('<BBI', 1, n & 0xFF, crc)
            else:
                out = struct.pack('<BHI', 3, n, crc)
            if is_log:
                out += bytes([self.max_blocks, self.max_ops])
            self.send(link, port, 0, out)
        elif cmd in (0, 2):           # element
            if cmd == 2 and not self.v2:
                self.protocol_errors.append(('v2 item to legacy firmware', port))
                return
            if cmd == 0:
                if len(data) < 2:
                    self.protocol_errors.append(('short toc item request', port))
                    return
                idx = data[1]
            else:
                if len(data) < 3:
                    self.protocol_errors.append(('short toc item request', port))
                    return
                idx = data[1] | (data[2] << 8)
            self.toc_requests.append((self.sim.now, link.session, port, cmd, idx))
            if idx >= len(toc):
                self.protocol_errors.append(('toc index out of range', port, idx, len(toc)))
                # firmware answers with an empty element
                out = bytes([cmd]) + (bytes([idx & 0xFF]) if cmd == 0 else struct.pack('<H', idx & 0xFFFF))
                self.send(link, port, 0, out)
                return
            e = toc[idx]
            tb = e.type_id if is_log else e.toc_byte()
            body = bytes([tb]) + e.group.encode('latin1') + b'\0' + e.name.encode('latin1') + b'\0'
            if cmd == 0:
                out = bytes([0, idx]) + body
            else:
                out = struct.pack('<BH', 2, idx) + body
            self.send(link, port, 0, out)
        else:
            self.protocol_errors.append(('unknown toc cmd', port, cmd))

    # ----------------------------------------------------------------- log
    def _log(self, link, channel, data):
        if channel == 0:
            self._toc(link, PORT_LOG, data, self.log_toc, self.log_crc, True)
            return
        if channel != 1 or not data:
            return
        cmd = data[0]
        now = self.sim.now
        if cmd == 5:                   # reset
            for b in self.blocks.values():
                b.gen += 1
            self.blocks = {}
            self.log_cmds.append((now, link.session, 5, None, data, 0))
            self.send(link, PORT_LOG, 1, bytes([5, 0, 0]))
            return
        if len(data) < 2:
            self.protocol_errors.append(('short log settings', data))
            return
        bid = data[1]
        status = 0
        if cmd in (0, 1, 6, 7):        # create / append (v1 / v2)
            v2 = cmd in (6, 7)
            if v2 and not self.v2:
                self.protocol_errors.append(('v2 log cmd to legacy firmware', cmd))
            create = cmd in (0, 6)
            esz = 3 if v2 else 2
            body = data[2:]
            n = len(body) // esz        # trailing partial entry ignored as in firmware
            ops = []
            for i in range(n):
                ent = body[i * esz:(i + 1) * esz]
                t = ent[0]
                vid = ent[1] | (ent[2] << 8) if v2 else ent[1]
                ops.append((t & 0x0F, (t >> 4) & 0x0F, vid))
            if create:
                if bid in self.blocks:
                    status = errno.EEXIST
                elif len(self.blocks) >= self.max_blocks:
                    status = errno.ENOMEM
                else:
                    blk = LogBlock(bid)
                    status = self._append(blk, ops)
                    if status == 0:
                        self.blocks[bid] = blk
            else:
                blk = self.blocks.get(bid)
                if blk is None:
                    status = errno.ENOENT
                else:
                    status = self._append(blk, ops)
            self.log_cmds.append((now, link.session, cmd, bid, data, status))
            self.send(link, PORT_LOG, 1, bytes([cmd, bid, status]))
        elif cmd == 2:                 # delete
            blk = self.blocks.pop(bid, None)
            if blk is None:
                status = errno.ENOENT
            else:
                blk.gen += 1
                blk.running = False
            self.log_cmds.append((now, link.session, cmd, bid, data, status))
            self.send(link, PORT_LOG, 1, bytes([cmd, bid, status]))
        elif cmd == 3:                 # start
            blk = self.blocks.get(bid)
            if blk is None or len(data) < 3:
                status = errno.ENOENT
            else:
                period = data[2]
                blk.gen += 1
                if period > 0:
                    blk.period = period
                    blk.running = True
                    self._arm(link, blk, blk.gen)
            self.log_cmds.append((now, link.session, cmd, bid, data, status))
            self.send(link, PORT_LOG, 1, bytes([cmd, bid, status]))
        elif cmd == 4:                 # stop
            blk = self.blocks.get(bid)
            if blk is None:
                status = errno.ENOENT
            else:
                blk.gen += 1
                blk.running = False
            self.log_cmds.append((now, link.session, cmd, bid, data, status))
            self.send(link, PORT_LOG, 1, bytes([cmd, bid, status]))
        else:
            self.protocol_errors.append(('unknown log cmd', cmd))

    def _append(self, blk, ops):
        size = sum(LOG_TYPES[f][2] for (f, s, v) in blk.ops if f in LOG_TYPES)
        for f, s, v in ops:
            if f not in LOG_TYPES:
                return errno.ENOENT
            if s != 0 and v >= len(self.log_toc):
                return errno.ENOENT
            size += LOG_TYPES[f][2]
            if size > 26:
                return errno.E2BIG
        if sum(len(b.ops) for b in self.blocks.values()) + len(blk.ops) + len(ops) > self.max_ops:
            return errno.ENOMEM
        blk.ops.extend(ops)
        return 0

    def _arm(self, link, blk, gen):
        self.sim.after(blk.period * 0.01, lambda: self._sample(link, blk, gen))

    def sample_value(self, blk, k, i, ftype):
        """Deterministic value of the i-th variable in the k-th sample of a block."""
        h = zlib.crc32(struct.pack('<IIII', self.value_seed, blk.id, k, i))
        fmt = LOG_TYPES[ftype][1]
        sel = h % 7
        if ftype == 7:
            specials = [0.0, -0.0, 3.4028234663852886e+38, -3.4028234663852886e+38, 1.401298464324817e-45]
            if sel < 5:
                return specials[sel]
            return struct.unpack('<f', struct.pack('<I', (h * 2654435761) & 0x7F7FFFFF))[0]
        if ftype == 8:
            specials = [0.0, 65504.0, -65504.0, 5.960464477539063e-08, 1.0]
            if sel < 5:
                return specials[sel]
            return struct.unpack('<e', struct.pack('<H', (h >> 3) & 0x7BFF))[0]
        size = LOG_TYPES[ftype][2]
        signed = ftype in (4, 5, 6)
        bits = 8 * size
        lo, hi = (-(1 << (bits - 1)), (1 << (bits - 1)) - 1) if signed else (0, (1 << bits) - 1)
        if sel == 0:
            return lo
        if sel == 1:
            return hi
        if sel == 2:
            return 0
        return lo + (h * 2654435761) % (hi - lo + 1)

    def _sample(self, link, blk, gen):
        if blk.gen != gen or not blk.running or self.blocks.get(blk.id) is not blk:
            return
        self._arm(link, blk, gen)
        ts = int(round(self.sim.now * 1000)) & 0xFFFFFF
        vals = []
        payload = bytes([blk.id]) + struct.pack('<I', ts)[:3]
        for i, (f, s, v) in enumerate(blk.ops):
            val = self.sample_value(blk, blk.nsamples, i, f)
            vals.append(val)
            payload += struct.pack(LOG_TYPES[f][1], val)
        blk.nsamples += 1
        if link.closed or link.failed:
            return
        self.log_sent.append((self.sim.now, link.session, blk.id, ts, vals, payload))
        self.send(link, PORT_LOG, 2, payload)

    # --------------------------------------------------------------- param
    def _param(self, link, channel, data):
        now = self.sim.now
        if channel == 0:
            self._toc(link, PORT_PARAM, data, self.param_toc, self.param_crc, False)
        elif channel == 1:             # read
            if self.v2:
                if len(data) < 2:
                    self.protocol_errors.append(('short param read', data))
                    return
                idx = data[0] | (data[1] << 8)
                pre = data[:2]
            else:
                if len(data) < 1:
                    return
                idx = data[0]
                pre = data[:1]
            self.param_reads.append((now, link.session, idx))
            if idx >= len(self.param_toc):
                self.protocol_errors.append(('param read index out of range', idx))
                self.send(link, PORT_PARAM, 1, pre + bytes([errno.ENOENT]))
                return
            p = self.param_toc[idx]
            val = struct.pack(p.fmt, p.value)
            if self.v2:
                self.send(link, PORT_PARAM, 1, pre + b'\0' + val)
            else:
                self.send(link, PORT_PARAM, 1, pre + val)
        elif channel == 2:             # write
            if self.v2:
                if len(data) < 2:
                    self.protocol_errors.append(('short param write', data))
                    return
                idx = data[0] | (data[1] << 8)
                pre, raw = data[:2], data[2:]
            else:
                idx = data[0]
                pre, raw = data[:1], data[1:]
            if idx >= len(self.param_toc):
                self.protocol_errors.append(('param write index out of range', idx))
                self.param_writes.append((now, link.session, idx, raw, False))
                self.send(link, PORT_PARAM, 2, pre + bytes([errno.ENOENT]))
                return
            p = self.param_toc[idx]
            size = struct.calcsize(p.fmt)
            ok = (not p.ro) and len(raw) == size
            self.param_writes.append((now, link.session, idx, raw, ok))
            if len(raw) != size:
                self.protocol_errors.append(('param write with wrong size', idx, len(raw), size))
            if ok:
                p.value = struct.unpack(p.fmt, raw)[0]
            self.send(link, PORT_PARAM, 2, pre + struct.pack(p.fmt, p.value))
        elif channel == 3:             # misc
            if len(data) < 3:
                self.protocol_errors.append(('short param misc', data))
                return
            cmd = data[0]
            idx = data[1] | (data[2] << 8)
            self.param_misc.append((now, link.session, cmd, idx))
            pre = data[:3]
            if cmd == 0:               # set by name: no reply
                self.sink.append((now, link.session, PORT_PARAM, 3, data))
                return
            if idx >= len(self.param_toc):
                self.send(link, PORT_PARAM, 3, pre + bytes([errno.ENOENT]))
                return
            p = self.param_toc[idx]
            if cmd == 2:               # extended type
                self.send(link, PORT_PARAM, 3, pre + bytes([1 if p.persistent else 0]))
            elif cmd == 3:             # persistent store
                if p.persistent:
                    p.stored = p.value
                    self.send(link, PORT_PARAM, 3, pre + b'\0')
                else:
                    self.send(link, PORT_PARAM, 3, pre + bytes([errno.ENOENT]))
            elif cmd == 5:             # persistent clear
                if p.persistent:
                    p.stored = None
                    self.send(link, PORT_PARAM, 3, pre + b'\0')
                else:
                    self.send(link, PORT_PARAM, 3, pre + bytes([errno.ENOENT]))
            elif cmd == 4:             # persistent get state
                if not p.persistent:
                    self.send(link, PORT_PARAM, 3, pre + bytes([errno.ENOENT]))
                elif p.stored is None:
                    self.send(link, PORT_PARAM, 3, pre + b'\0' + struct.pack(p.fmt, p.default))
                else:
                    self.send(link, PORT_PARAM, 3, pre + b'\1' + struct.pack(p.fmt, p.default) +
                              struct.pack(p.fmt, p.stored))
            elif cmd == 6:             # default value
                self.send(link, PORT_PARAM, 3, pre + struct.pack(p.fmt, p.default))
            else:
                self.protocol_errors.append(('unknown param misc', cmd))

    def notify_param(self, idx, value=None):
        """Unsolicited MISC_VALUE_UPDATED (e.g. the firmware changed a parameter)."""
        link = self.link
        if link is None or link.closed or link.failed or not self.v2:
            return
        p = self.param_toc[idx]
        if value is not None:
            p.value = value
        self.send(link, PORT_PARAM, 3, struct.pack('<BH', 1, idx) + struct.pack(p.fmt, p.value))

    # ----------------------------------------------------------------- mem
    def _mem(self, link, channel, data):
        now = self.sim.now
        if channel == 0:
            if not data:
                return
            if data[0] == 1:
                self.send(link, PORT_MEM, 0, bytes([1, len(self.mems)]))
            elif data[0] == 2 and len(data) >= 2:
                i = data[1]
                if i >= len(self.mems):
                    self.send(link, PORT_MEM, 0, bytes([2, i]))
                    return
                m = self.mems[i]
                self.send(link, PORT_MEM, 0, bytes([2, i, m.mtype]) + struct.pack('<I', m.size) +
                          struct.pack('<Q', m.addr))
        elif channel == 1:
            if len(data) < 6:
                self.protocol_errors.append(('short mem read', data))
                return
            mid, addr, ln = struct.unpack('<BIB', data[:6])
            status = 0
            out = b''
            if ln > 24:
                self.protocol_errors.append(('mem read length > 24', ln))
            if mid >= len(self.mems) or addr + ln > self.mems[mid].size:
                status = errno.ENOENT if mid >= len(self.mems) else errno.EIO
            elif self.mem_fault is not None:
                status = self.mem_fault('r', mid, addr)
            if status == 0:
                out = bytes(self.mems[mid].data[addr:addr + ln])
            self.mem_ops.append((now, link.session, 'r', mid, addr, ln, status))
            self.send(link, PORT_MEM, 1, data[:5] + bytes([status]) + out)
        elif channel == 2:
            if len(data) < 5:
                self.protocol_errors.append(('short mem write', data))
                return
            mid, addr = struct.unpack('<BI', data[:5])
            payload = data[5:]
            status = 0
            if len(payload) > 25:
                self.protocol_errors.append(('mem write payload > 25', len(payload)))
            if mid >= len(self.mems) or addr + len(payload) > self.mems[mid].size:
                status = errno.ENOENT if mid >= len(self.mems) else errno.EIO
            elif self.mem_fault is not None:
                status = self.mem_fault('w', mid, addr)
            if status == 0:
                self.mems[mid].data[addr:addr + len(payload)] = payload
            self.mem_ops.append((now, link.session, 'w', mid, addr, bytes(payload), status))
            self.send(link, PORT_MEM, 2, data[:5] + bytes([status]))
