"""
SimLink: a CRTP link driver for `sim://<device>` URIs, and the World that
connects links to simulated devices through a FIFO channel with latency and
seeded faults.

Reference-model rules (DESIGN Appendix A): both directions are FIFO (a CRTP
link never reorders), each packet gets a latency drawn from the net PRNG, faults
are {uplink lost, downlink lost, downlink duplicated, downlink delayed}, and a
link failure is reported once per link instance, either from the link's own
thread or synchronously from inside send_packet on the sender's thread.
"""
import random

from simkit import kernel
from simkit import primitives as P


class World:
    """Everything outside the library for one run."""

    def __init__(self, sim, faults, net_seed=0, lat=(0.0005, 0.003), needs_resending=True):
        self.sim = sim
        self.faults = faults
        self.net = random.Random(net_seed)
        self.lat = lat
        self.needs_resending = needs_resending
        self.devices = {}
        self.links = []            # every SimLink ever connected, in order
        self.wire = []             # (t, session, 'up'|'down', header, bytes, note)
        # link-failure plan: list of dicts consumed one per session
        #   {'after': k, 'mode': 'driver'|'sender', 'msg': str}
        self.fail_plan = []
        self.can_inject = False    # start the error-report thread on every link (for inject_failure)
        self.delay_range = (0.05, 1.6)
        self.on_uplink = None      # optional observer(session, header, data)
        self.reject_connect = []   # per-session: exception text to raise in connect (consumed)
        self.send_duration = 0.0        # virtual seconds a send_packet call of the driver takes (out-queue back-pressure)
        self.uri_alias = None           # optional: uri -> device name for URIs of other schemes
        self.close_duration = 0.0       # virtual seconds SimLink.close() takes (0: instantaneous)
        self.on_down_delivered = None   # observer: a downlink packet is handed to the driver's receive queue
        self.dupable = None        # optional fn(header, data) -> may this downlink packet be duplicated / delayed?
        self.lossy = None          # optional fn(direction, header, data) -> may this packet be lost?
        self.on_link_close = None  # optional observer(link), called at the start of close()
        self.hist = None           # optional shared history list: world.note() appends to it

    def note(self, kind, *args):
        if self.hist is not None:
            self.hist.append((len(self.hist), self.sim.now, kind, args, ''))

    def add_device(self, name, dev):
        self.devices[name] = dev
        dev.world = self

    def latency(self):
        lo, hi = self.lat
        return lo + (hi - lo) * self.net.random()

    def install(self):
        """Register the sim:// driver as the only link driver."""
        import cflib.crtp
        cls = make_simlink_class()
        cls.world = self
        del cflib.crtp.CLASSES[:]
        cflib.crtp.CLASSES.append(cls)
        return cls


_simlink_class = None


def make_simlink_class():
    global _simlink_class
    if _simlink_class is not None:
        return _simlink_class
    from cflib.crtp.crtpdriver import CRTPDriver
    from cflib.crtp.crtpstack import CRTPPacket
    from cflib.crtp.exceptions import WrongUriType

    class SimLink(CRTPDriver):
        world = None

        def __init__(self):
            CRTPDriver.__init__(self)
            self.uri = ''
            self.closed = False
            self.connected = False
            self.inbox = P.Mailbox('simlink-inbox')
            self.errbox = P.Mailbox('simlink-errbox')
            self.link_error_callback = None
            self.session = None
            self.exchanged = 0
            self.fail = None
            self.failed = False
            self.sent_after_close = 0
            self.closing = False
            self._last_up = 0.0
            self._last_down = 0.0
            self.device = None
            self.n_up = 0
            self.n_down = 0

        # ---------------------------------------------------------------- API
        def connect(self, uri, radio_link_statistics_callback, link_error_callback):
            w = self.world
            if not uri.startswith('sim://'):
                # a check may let the simulated link stand in for another scheme (e.g. the radio URI of a bootloader)
                name = w.uri_alias(uri) if w.uri_alias is not None else None
                if name is None:
                    raise WrongUriType('Not a sim URI')
            else:
                name = uri[len('sim://'):].split('?')[0]
            if w.reject_connect:
                msg = w.reject_connect.pop(0)
                if msg:
                    raise Exception(msg)
            if name not in w.devices:
                raise Exception('No such simulated device: %s' % name)
            self.uri = uri
            self.device = w.devices[name]
            self.needs_resending = w.needs_resending
            self.link_error_callback = link_error_callback
            self.session = len(w.links)
            w.links.append(self)
            self.connected = True
            if w.fail_plan:
                self.fail = w.fail_plan.pop(0)
            self.device.link_connected(self)
            w.sim.log('link-connect', self.session)
            if self.fail or w.can_inject:
                t = P.SimThread(target=self._err_thread, name='simlink-%d' % self.session)
                t.daemon = True
                t.start()
            if self.fail and self.fail.get('after') == 0:
                self._trigger_failure()
                if self.fail.get('in_connect') and self.fail.get('mode') == 'driver':
                    # the driver's own thread notices the failure at once and reports it before connect() returns
                    # (e.g. the very first USB transfer of the radio thread fails)
                    for _ in range(2000):
                        if self.fail.get('cb_done') or self.closed:
                            break
                        w.sim.sleep(0.0005)

        def _err_thread(self):
            msg = self.errbox.get(None)
            if msg is None or self.closed:
                return
            cb = self.link_error_callback
            if cb is not None:
                self.world.sim.log('link-error-driver-thread', self.session)
                self.world.note('link_error_reported', self.session, 'driver')
                try:
                    cb(msg)
                finally:
                    if self.fail is not None:
                        self.fail['cb_done'] = True
                self.world.note('link_error_returned', self.session, 'driver')

        def _trigger_failure(self):
            """Kernel or thread context: the link has failed."""
            if self.failed:
                return
            self.failed = True
            self.world.sim.log('link-failed', self.session, self.exchanged)
            if self.fail.get('mode') == 'driver':
                self.fail['reported'] = True
                self.errbox.put(self.fail.get('msg', 'simulated link failure'))
            else:
                # 'sender' mode: reported from inside the next send_packet call (as RadioDriver
                # does when its out-queue stays full); if nobody sends for 5 s the driver's own
                # thread reports it (as the radio thread's "Too many packets lost" would).
                def fallback():
                    if not self.fail.get('reported') and not self.closed:
                        self.fail['reported'] = True
                        self.errbox.put(self.fail.get('msg', 'simulated link failure (late)'))
                self.world.sim.after(5.0, fallback)

        def inject_failure(self, mode='driver', msg='simulated link failure', block=0):
            """Kernel or thread context: fail this link now (once)."""
            if self.closed or self.failed:
                return
            if self.fail is None:
                self.fail = {'after': -1, 'mode': mode, 'msg': msg, 'block': block}
            self._trigger_failure()

        def _count(self):
            self.exchanged += 1
            if self.fail and not self.failed and self.exchanged >= self.fail['after']:
                self._trigger_failure()

        def send_packet(self, pk):
            w = self.world
            sim = w.sim
            if self.closed:
                self.sent_after_close += 1
                w.wire.append((sim.now, self.session, 'up-closed', pk.header, bytes(pk.data), ''))
                sim.log('send-on-closed-link', self.session, pk.header, bytes(pk.data))
                return
            header = pk.header
            data = bytes(pk.data)
            if w.send_duration and sim.cur() is not None:
                # the driver's out-queue is full for a moment: the caller (who holds the library's send lock) waits
                sim.sleep(w.send_duration)
                if self.closed:
                    self.sent_after_close += 1
                    w.wire.append((sim.now, self.session, 'up-closed', header, data, ''))
                    return
            if self.closing:
                w.wire.append((sim.now, self.session, 'up-closing', header, data, ''))
                sim.log('send-while-closing', self.session, header, data)
                return
            if self.failed:
                if self.fail.get('mode') == 'sender' and not self.fail.get('reported'):
                    self.fail['reported'] = True
                    if self.fail.get('block', 0):
                        sim.sleep(self.fail['block'])      # RadioDriver: out_queue.put(pk, True, 2)
                        if self.closed:
                            return
                    cb = self.link_error_callback
                    sim.log('link-error-sender-thread', self.session)
                    if cb is not None:
                        w.note('link_error_reported', self.session, 'sender')
                        cb(self.fail.get('msg', 'simulated link failure (send)'))
                        w.note('link_error_returned', self.session, 'sender')
                return
            self.n_up += 1
            sim.log('up', self.session, header, data)
            if w.on_uplink is not None:
                w.on_uplink(self, pk)
            lost = False
            if w.needs_resending and (w.lossy is None or w.lossy('up', header, data)):
                lost = w.faults.flag('up_loss')
            w.wire.append((sim.now, self.session, 'up', header, data, 'lost' if lost else ''))
            self._count()
            if lost:
                return
            t = max(self._last_up, sim.now + w.latency())
            self._last_up = t
            dev = self.device
            sim.at(t, lambda: self._deliver_up(dev, header, data))

        def _deliver_up(self, dev, header, data):
            if self.closed or self.failed:
                return
            dev.receive(self, header, data)

        # called by devices (kernel context)
        def downlink(self, header, data, extra_delay=0.0):
            w = self.world
            sim = w.sim
            if self.closed or self.failed:
                return
            data = bytes(data)
            copies = 1
            lost = False
            if w.needs_resending and (w.lossy is None or w.lossy('down', header, data)):
                lost = w.faults.flag('down_loss')
            faultable = w.dupable is None or w.dupable(header, data)
            if not lost and faultable and w.faults.flag('down_dup'):
                copies = 2
            delay = w.faults.amount('down_delay', *w.delay_range) if faultable else 0.0
            w.wire.append((sim.now, self.session, 'down', header, data,
                           'lost' if lost else ('dup' if copies == 2 else '') + ('delayed' if delay else '')))
            if lost:
                return
            for _ in range(copies):
                t = max(self._last_down, sim.now + w.latency() + delay + extra_delay)
                self._last_down = t
                sim.at(t, lambda: self._deliver_down(header, data))

        def _deliver_down(self, header, data):
            if self.closed or self.failed:
                return
            self.n_down += 1
            if self.n_down == 1:
                self.world.note('first_packet_delivered', self.session)
            self.world.sim.log('down', self.session, header, data)
            if self.world.on_down_delivered is not None:
                self.world.on_down_delivered(self, header, data)
            self.inbox.put((header, data))
            self._count()

        def receive_packet(self, wait=0):
            if wait == 0:
                item = self.inbox.get(block=False)
            elif wait < 0:
                item = self.inbox.get(None)
            else:
                item = self.inbox.get(wait)
            if item is None:
                return None
            header, data = item
            return CRTPPacket(header, list(data))

        def close(self):
            if not self.closed:
                if self.world.on_link_close is not None:
                    self.world.on_link_close(self)
                d = self.world.close_duration
                if d and not self.closing and self.world.sim.cur() is not None:
                    # a real driver takes a while to stop its thread and release the device; what is handed to it in the
                    # meantime is accepted and discarded
                    self.closing = True
                    self.world.sim.sleep(d)
                    if self.closed:
                        return
                self.closed = True
                self.world.sim.log('link-close', self.session)
                self.errbox.put(None)
                if self.device is not None:
                    self.device.link_closed(self)

        def get_status(self):
            return 'sim'

        def get_name(self):
            return 'sim'

        def scan_interface(self, address=None):
            return []

    _simlink_class = SimLink
    return SimLink
