"""
Fault decisions.

Every potential fault site asks `Faults.decide(site, ...)`.  Each site has its
own counter, so a fault is identified by (site, n-th time the site was asked).
In *random* mode the answer is drawn from the fault PRNG with the site's
configured rate and every non-default answer is recorded; in *explicit* mode
(replay / minimisation / directed sweeps) the answer is looked up in a table and
defaults to "no fault".
"""
import random


class Faults:
    def __init__(self, seed=0, rates=None, explicit=None):
        self.rng = random.Random(seed)
        self.rates = dict(rates or {})
        self.explicit = None
        if explicit is not None:
            self.explicit = {(s, int(n)): v for (s, n, v) in explicit}
        self.counters = {}
        self.fired = []          # [site, n, value]
        self.asked = {}          # site -> times asked

    def _next(self, site):
        n = self.counters.get(site, 0)
        self.counters[site] = n + 1
        return n

    def flag(self, site):
        """Boolean fault with the site's configured probability."""
        n = self._next(site)
        if self.explicit is not None:
            v = self.explicit.get((site, n), 0)
            if v:
                self.fired.append([site, n, v])
            return bool(v)
        p = self.rates.get(site, 0.0)
        if p and self.rng.random() < p:
            self.fired.append([site, n, 1])
            return True
        return False

    def amount(self, site, lo, hi):
        """A fault with a magnitude (e.g. extra delay); 0.0 = no fault."""
        n = self._next(site)
        if self.explicit is not None:
            v = self.explicit.get((site, n), 0)
            if v:
                self.fired.append([site, n, v])
            return float(v)
        p = self.rates.get(site, 0.0)
        if p and self.rng.random() < p:
            v = round(self.rng.uniform(lo, hi), 6)
            self.fired.append([site, n, v])
            return v
        return 0.0

    def choice(self, site, k):
        """k-ary outcome, 0 = nominal.  rates[site] = list of k-1 probabilities."""
        n = self._next(site)
        if self.explicit is not None:
            v = int(self.explicit.get((site, n), 0))
            if v:
                self.fired.append([site, n, v])
            return v
        ps = self.rates.get(site)
        if not ps:
            return 0
        r = self.rng.random()
        acc = 0.0
        for i, p in enumerate(ps):
            acc += p
            if r < acc:
                self.fired.append([site, n, i + 1])
                return i + 1
        return 0

    def fired_counts(self):
        out = {}
        for s, _, _ in self.fired:
            out[s] = out.get(s, 0) + 1
        return out
