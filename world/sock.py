"""
In-memory TCP socket for cflib.cpx.transports (DESIGN section 3): a byte stream in each direction, with
fragmentation control on the receive side: recv(n) returns between 1 and min(n, available) bytes, the count taken
from an explicit list of chunk sizes (directed sweeps) or from the net PRNG.
"""
import types

from simkit import kernel


class FakeSocket:
    def __init__(self, net):
        self.net = net
        self.rx = bytearray()        # bytes the peer has written, not yet received by the host
        self.waiters = []
        self.closed = False
        self.connected = None
        self.sent = bytearray()      # everything the host sent
        self.send_calls = []
        self.recv_sizes = []         # sizes actually returned (for the evidence)
        self.timeout = None          # settimeout() value: recv raises socket.timeout after that long without data
        net.sockets.append(self)

    def connect(self, addr):
        self.connected = addr
        if self.net.on_connect is not None:
            self.net.on_connect(self)

    def send(self, data):
        data = bytes(data)
        # a system call: other threads may run before and after it (never in the middle: the kernel appends one send()
        # of a small buffer to the stream atomically)
        kernel.SIM.yield_point('send')
        self.sent += data
        self.send_calls.append(len(data))
        if self.net.on_send is not None:
            self.net.on_send(self, data)
        return len(data)

    sendall = send

    def recv(self, n):
        sim = kernel.SIM
        sim.yield_point('recv')
        deadline = None if self.timeout is None else sim.now + self.timeout
        while not self.rx:
            if self.closed:
                return b''
            woken = sim.block(self.waiters, deadline, 'socket-recv')
            if not self.rx and not woken and deadline is not None and sim.now >= deadline:
                raise TimeoutError('timed out')
        k = self.net.next_chunk(min(n, len(self.rx)))
        out = bytes(self.rx[:k])
        del self.rx[:k]
        self.recv_sizes.append(k)
        return out

    def feed(self, data):
        """Peer side: bytes arrive on the stream (any context)."""
        self.rx += bytes(data)
        kernel.SIM.wake_all(self.waiters)

    def shutdown(self, how):
        pass

    def close(self):
        self.closed = True
        kernel.SIM.wake_all(self.waiters)

    def settimeout(self, t):
        self.timeout = t


class FakeNet:
    def __init__(self, rng, chunks=None):
        self.rng = rng
        self.chunks = list(chunks) if chunks is not None else None
        self.sockets = []
        self.on_connect = None
        self.on_send = None
        self.mode = rng.choice(['tiny', 'small', 'mixed', 'whole']) if chunks is None else 'explicit'

    def next_chunk(self, limit):
        if self.chunks is not None:
            if self.chunks:
                return max(1, min(limit, self.chunks.pop(0)))
            return limit
        if self.mode == 'tiny':
            return 1
        if self.mode == 'small':
            return self.rng.randint(1, min(limit, 3))
        if self.mode == 'whole':
            return limit
        return self.rng.choice([1, limit, self.rng.randint(1, limit)])

    def module(self):
        return types.SimpleNamespace(socket=lambda *a, **k: FakeSocket(self), AF_INET=2, SOCK_STREAM=1, SHUT_WR=1,
                                     SHUT_RDWR=2, error=OSError, timeout=TimeoutError)

    def install(self):
        import cflib.cpx.transports as tr
        tr.socket = self.module()
