"""
SimFS: in-memory file system behind cflib.crazyflie.toccache's `open`, `glob` and `os` seams.

Model (DESIGN Appendix A): paths -> bytes, two roots (read-only, read-write).  Data written and closed in the
current life is *volatile* (cflib never fsyncs); at a crash each file written in this life keeps a prefix chosen by
the fault plan (optionally followed by a zero / garbage tail), older files keep their content.  Every mutation of
the read-only root raises PermissionError and is logged.
"""
import fnmatch
import io
import types

from simkit import kernel


def _syscall():
    """A file-system call is a scheduling point for the simulated threads."""
    sim = kernel.SIM
    if sim is not None and sim.cur() is not None:
        sim.yield_point('fs')


class SimFS:
    def __init__(self, ro_root='/ro', rw_root='/rw'):
        self.ro_root, self.rw_root = ro_root, rw_root
        self.files = {}            # path -> bytes (content as visible to this life)
        self.dirs = {ro_root}
        self.dirty = {}            # path -> full content written in this life (volatile)
        self.ro_mutations = []     # attempted writes / creates / truncates under the read-only root
        self.log = []              # (op, path)
        self.unreadable = set()    # paths whose open() fails with EACCES / EIO (permissions changed, bad sector)

    # ------------------------------------------------------------------ seams
    def open(self, path, mode='r', *a, **k):
        _syscall()
        self.log.append(('open', path, mode))
        if 'w' in mode or 'a' in mode or '+' in mode:
            if path.startswith(self.ro_root + '/') or path == self.ro_root:
                self.ro_mutations.append(('open-for-write', path))
                raise PermissionError(13, 'Permission denied', path)
            d = path.rsplit('/', 1)[0]
            if d not in self.dirs:
                raise FileNotFoundError(2, 'No such file or directory', path)
            return _WFile(self, path)
        if path not in self.files:
            raise FileNotFoundError(2, 'No such file or directory', path)
        if path in self.unreadable:
            raise PermissionError(13, 'Permission denied', path)
        return io.StringIO(self.files[path].decode('latin1'))

    def glob(self, pattern):
        self.log.append(('glob', pattern))
        return sorted(p for p in self.files if fnmatch.fnmatchcase(p, pattern))

    def exists(self, path):
        return path in self.dirs or path in self.files

    def makedirs(self, path, *a, **k):
        self.log.append(('makedirs', path))
        if path.startswith(self.ro_root):
            self.ro_mutations.append(('makedirs', path))
            raise PermissionError(13, 'Permission denied', path)
        self.dirs.add(path)

    def remove(self, path):
        self.log.append(('remove', path))
        if path.startswith(self.ro_root + '/'):
            self.ro_mutations.append(('remove', path))
            raise PermissionError(13, 'Permission denied', path)
        if path not in self.files:
            raise FileNotFoundError(2, 'No such file or directory', path)
        del self.files[path]
        self.dirty.pop(path, None)

    def rename(self, src, dst):
        _syscall()
        self.log.append(('rename', src, dst))
        for p in (src, dst):
            if p.startswith(self.ro_root + '/'):
                self.ro_mutations.append(('rename', src, dst))
                raise PermissionError(13, 'Permission denied', p)
        self.files[dst] = self.files.pop(src)
        if src in self.dirty:
            self.dirty[dst] = self.dirty.pop(src)

    def os_proxy(self):
        import os as _os
        return types.SimpleNamespace(
            path=types.SimpleNamespace(exists=self.exists, join=_os.path.join, basename=_os.path.basename,
                                       dirname=_os.path.dirname, isfile=lambda p: p in self.files,
                                       isdir=lambda p: p in self.dirs),
            makedirs=self.makedirs, remove=self.remove, unlink=self.remove, rename=self.rename, replace=self.rename,
            sep='/', error=OSError)

    def install(self):
        import cflib.crazyflie.toccache as tc
        tc.open = self.open
        tc.glob = self.glob
        tc.os = self.os_proxy()

    # ------------------------------------------------------------------ crash
    def crash(self, keep):
        """Process crash + restart.  keep: {path: (prefix_len or None for 'all', tail bytes)}; files written in this
        life that are not mentioned survive completely (as if the OS flushed them)."""
        for path, full in self.dirty.items():
            k = keep.get(path)
            if k is None:
                continue
            n, tail = k
            if n is None:
                n = len(full)
            self.files[path] = full[:n] + tail
            if n == 0 and not tail and keep.get('__drop_empty__'):
                del self.files[path]
        self.dirty = {}

    def clean_restart(self):
        self.dirty = {}


class _WFile:
    def __init__(self, fs, path):
        self.fs, self.path = fs, path
        self.buf = []
        self.closed = False
        fs.files[path] = b''           # created / truncated
        fs.dirty[path] = b''

    def write(self, s):
        _syscall()
        if isinstance(s, str):
            s = s.encode('latin1')
        self.buf.append(s)
        self.fs.files[self.path] = b''.join(self.buf)
        self.fs.dirty[self.path] = self.fs.files[self.path]
        return len(s)

    def close(self):
        _syscall()
        self.closed = True

    def __enter__(self):
        return self

    def __exit__(self, *a):
        self.close()
